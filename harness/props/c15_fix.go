//go:build c15fix

package props

import (
	"encoding/json"
	"sort"
	"time"

	"github.com/csgura/fp"
	jfx "github.com/csgura/fp/test/verifjsonfix"
)

// The @fp.Json fixture shapes, generated at check time by the gombok of the tree under test into a scratch copy of the
// repository (harness/c15fixture/fix.go.txt -> test/verifjsonfix). Values avoid what encoding/json itself cannot
// round-trip behind the generated tags: empty-but-non-nil slices and maps under omitempty, ints inside `any`,
// the field tagged json:"-".
const c15FixN = 10

// c15Keys is an oracle that does not go through the generated Mutable twin: the top-level keys of the emitted object.
// want[key] says whether the key must be present: slice, map and pointer fields are omitted when nil and kept otherwise.
// Keys not listed are not judged - Option fields (omitempty has no effect on a struct-typed field in encoding/json: None
// is emitted as null, on the twin as well), string fields, and fields declared as `any` (the generator does not give
// those omitempty; the emitted bytes still equal the twin's, which is what the property states).
func c15Keys(c *c15ctx, v any, want map[string]bool) bool {
	b, err := json.Marshal(v)
	if err != nil {
		return true // reported by c15Run
	}
	var obj map[string]json.RawMessage
	if err := json.Unmarshal(b, &obj); err != nil {
		c.r.Violate("encoding-differs:"+c.name, "%s: emitted %s, which is not a JSON object: %v", c.name, b, err)
		return false
	}
	keys := make([]string, 0, len(want))
	for k := range want {
		keys = append(keys, k)
	}
	sort.Strings(keys)
	for _, k := range keys {
		if _, has := obj[k]; has != want[k] {
			c.r.Violate("omitempty:"+c.name, "%s: emitted %s: key %q present=%v, want present=%v (slice, map and pointer fields are omitted when nil and kept otherwise)", c.name, b, k, has, want[k])
			return false
		}
	}
	c.r.Probe("emitted-key-sets-checked-without-the-twin")
	return true
}

func c15Fixture(c *c15ctx, kind int, s1, s2 string, i1, i3 int, preDef bool) {
	r := c.r
	c.freshFF = true
	r.Probe("records of gombok-generated fixture shapes")
	s3 := c15Strings[r.Choose(len(c15Strings), "s3")]
	fl := []float64{0, 1.5, -2.25e10, 1e-7, 3.141592653589793, float64(i3) / 7}
	f1 := fl[r.Choose(len(fl), "f1")]
	optS := func(k int, s string) fp.Option[string] {
		if k%3 == 0 {
			return fp.None[string]()
		}
		return fp.Some(s)
	}
	optI := func(k int) fp.Option[int] {
		if k%2 == 0 {
			return fp.None[int]()
		}
		return fp.Some(i1)
	}
	plain := func(a string, n int) jfx.Plain {
		return jfx.PlainMutable{Name: a, Count: n, Ratio: f1, Ok: n%2 == 0}.AsImmutable()
	}
	withOpt := func(k int) jfx.WithOption {
		tags := fp.None[[]string]()
		if k%4 == 1 {
			tags = fp.Some([]string{s1, s2})
		}
		return jfx.WithOptionMutable{Title: s1, Note: optS(k, s2), Level: optI(k), Tags: tags}.AsImmutable()
	}
	taggedM := func(a string, n int) jfx.TaggedMutable {
		m := jfx.TaggedMutable{Alpha: a, Beta: n, Gamma: s3}
		switch n % 3 {
		case 1:
			m.List = []string{} // empty but not nil: encodes as [] because the explicit tag has no omitempty
		case 2:
			m.List = []string{a, s3}
		}
		return m
	}
	tagged := func(a string, n int) jfx.Tagged { return taggedM(a, n).AsImmutable() }
	switch kind {
	case 0:
		c.name = "@fp.Json fixture Plain"
		v := plain(s1, i1)
		pre := jfx.Plain{}
		if preDef {
			pre = plain("pre", 7)
		}
		c15Run(c, v, pre, plain("o", 1), any(v.AsMutable()), true, true)
	case 1:
		c.name = "@fp.Json fixture WithOption (Option-typed fields)"
		v := withOpt(i3)
		pre := jfx.WithOption{}
		if preDef {
			pre = jfx.WithOptionMutable{Title: "pre", Note: fp.Some("preNote"), Level: fp.Some(9), Tags: fp.Some([]string{"p"})}.AsImmutable()
		}
		c15Run(c, v, pre, withOpt(1), any(v.AsMutable()), true, true)
	case 2:
		c.name = "@fp.Json fixture Nilable (slice, map, pointer, any)"
		m := jfx.NilableMutable{}
		if i3%2 == 0 {
			m.List = []int{i1, 2, 3}
		}
		if i3%3 == 0 {
			m.Dict = map[string]int{s1: i1, "k": 1}
		}
		if i3%5 != 0 {
			p := i1
			m.Ptr = &p
		}
		switch i3 % 6 {
		case 0:
			m.Raw = f1
		case 1:
			m.Raw = s2
		case 2:
			m.Raw = true
		case 3:
			m.Raw = map[string]any{"n": f1, "s": s1}
		case 4:
			m.Raw = []any{f1, s2, false}
		}
		if i3%4 == 1 {
			m.Anys = []any{f1, "x", nil, []any{1.5}}
			m.Bag = map[string]any{"a": f1, "b": map[string]any{"c": s3}}
		}
		v := m.AsImmutable()
		pre := jfx.Nilable{}
		if preDef {
			q := 5
			pre = jfx.NilableMutable{List: []int{9}, Dict: map[string]int{"pre": 1}, Ptr: &q, Raw: "pre", Bag: map[string]any{"pre": 1.0}}.AsImmutable()
		}
		if !c15Keys(c, v, map[string]bool{"list": m.List != nil, "dict": m.Dict != nil, "ptr": m.Ptr != nil, "anys": m.Anys != nil, "bag": m.Bag != nil}) {
			return
		}
		c15Run(c, v, pre, jfx.NilableMutable{Raw: 1.0}.AsImmutable(), any(v.AsMutable()), true, true)
	case 3:
		c.name = "@fp.Json fixture Tagged (explicit json tags)"
		// the emitted JSON is compared with the encoding of the Mutable value the record was built FROM (not with
		// v.AsMutable()): AsImmutable must not change what gets encoded
		m := taggedM(s1, ((i1%3)+3)%3)
		v := m.AsImmutable()
		pre := jfx.Tagged{}
		if preDef {
			pre = tagged("pre", 4)
		}
		c15Run(c, v, pre, tagged("o", 0), any(m), true, true)
	case 4:
		c.name = "@fp.Json fixture Embedding (embedded struct, colliding key)"
		v := jfx.EmbeddingMutable{Meta: jfx.Meta{ID: s1, Version: i1}, Id: s2, Name: s3}.AsImmutable()
		pre := jfx.Embedding{}
		if preDef {
			pre = jfx.EmbeddingMutable{Meta: jfx.Meta{ID: "preID", Version: 3}, Id: "preid", Name: "pre"}.AsImmutable()
		}
		c15Run(c, v, pre, jfx.EmbeddingMutable{Id: "o"}.AsImmutable(), any(v.AsMutable()), true, true)
	case 6:
		c.name = "@fp.Json fixture Stamped (embeds time.Time, a type with its own MarshalJSON)"
		v := jfx.StampedMutable{Time: time.Unix(int64(i3)*977, 0).UTC(), Label: s1, Count: i1}.AsImmutable()
		pre := jfx.Stamped{}
		if preDef {
			pre = jfx.StampedMutable{Time: time.Unix(5, 0).UTC(), Label: "pre", Count: 1}.AsImmutable()
		}
		// no twin comparison: the twin embeds time.Time too and therefore encodes the same way
		c15Run(c, v, pre, jfx.StampedMutable{Label: "o"}.AsImmutable(), nil, false, true)
	case 7:
		c.name = "@fp.Json fixture AllPublic (no private field)"
		m := jfx.AllPublicMutable{Name: s1, Age: i1, Note: optS(i3, s2)}
		if i3%2 == 0 {
			m.Tags = []string{s2, s3}
		}
		if i3%3 == 0 {
			nick := s3
			m.Nick = &nick
		}
		v := m.AsImmutable()
		pre := jfx.AllPublic{}
		if preDef {
			n := "preNick"
			pre = jfx.AllPublicMutable{Name: "pre", Tags: []string{"p"}, Nick: &n, Age: 9, Note: fp.Some("preNote")}.AsImmutable()
		}
		if !c15Keys(c, v, map[string]bool{"Tags": m.Tags != nil, "Nick": m.Nick != nil, "Age": true}) {
			return
		}
		c15Run(c, v, pre, jfx.AllPublicMutable{Name: "o"}.AsImmutable(), any(m), true, true)
	case 8:
		c.name = "@fp.Json fixture EmbedsOthers (embedded pointer, named slice, named basic type)"
		m := jfx.EmbedsOthersMutable{Code: jfx.Code(i1), Name: s1}
		if i3%2 == 0 {
			m.Meta = &jfx.Meta{ID: s2, Version: i1}
		}
		switch i3 % 3 {
		case 1:
			m.Labels = jfx.Labels{s2, s3}
		case 2:
			m.Labels = jfx.Labels{}
		}
		v := m.AsImmutable()
		pre := jfx.EmbedsOthers{}
		if preDef {
			pre = jfx.EmbedsOthersMutable{Meta: &jfx.Meta{ID: "pre"}, Labels: jfx.Labels{"p"}, Code: 7, Name: "pre"}.AsImmutable()
		}
		c15Run(c, v, pre, jfx.EmbedsOthersMutable{Name: "o"}.AsImmutable(), any(m), true, true)
	case 9:
		c.name = "@fp.Json fixture Graded (field types with pointer-receiver marshallers only)"
		m := jfx.GradedMutable{Level: jfx.Level(i1), Grade: jfx.Grade{N: i3}, Pair: [2]jfx.Level{jfx.Level(i3), 2}, Name: s1}
		v := m.AsImmutable()
		pre := jfx.Graded{}
		if preDef {
			pre = jfx.GradedMutable{Level: 9, Grade: jfx.Grade{N: 9}, Pair: [2]jfx.Level{8, 8}, Name: "pre"}.AsImmutable()
		}
		c15Run(c, v, pre, jfx.GradedMutable{Name: "o"}.AsImmutable(), any(m), true, true)
	default:
		c.name = "@fp.Json fixture Outer (nested @fp.Json values, slices and maps of them)"
		m := jfx.OuterMutable{Inner: plain(s1, i1), Wo: withOpt(i3)}
		if i3%2 == 1 {
			m.Items = []jfx.Plain{plain(s2, 1), plain("", 2)}
		}
		if i3%3 == 1 {
			m.ByKey = map[string]jfx.Tagged{"k": tagged(s2, 1), s3: tagged("", 0)}
		}
		v := m.AsImmutable()
		pre := jfx.Outer{}
		if preDef {
			pre = jfx.OuterMutable{Inner: plain("pre", 7), Items: []jfx.Plain{plain("p", 1)}}.AsImmutable()
		}
		if !c15Keys(c, v, map[string]bool{"inner": true, "wo": true, "items": m.Items != nil, "byKey": m.ByKey != nil}) {
			return
		}
		c15Run(c, v, pre, jfx.OuterMutable{Inner: plain("o", 0)}.AsImmutable(), any(v.AsMutable()), true, true)
	}
}
