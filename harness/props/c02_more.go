package props

import (
	"github.com/csgura/fp"
	"github.com/csgura/fp/iterator"
	"github.com/csgura/fp/option"
	"github.com/csgura/fp/statet"
	"github.com/csgura/fp/try"
)

// Hand-written combinators that are not part of the generated monad / traverse families
// (the generated table in c02_cases_gen.go covers those): statet's own combinators, the
// methods of fp.Try / fp.Option, try's Option / Seq transformer helpers, Compose*, Traverse_.
// Same conventions: every callback logs its position; operands fail according to the plan.

func c02optConv(e *c02env) func(fp.Option[int]) int {
	return func(o fp.Option[int]) int {
		if o.IsDefined() {
			return o.Get()
		}
		return -1
	}
}

func init() {
	type E = *c02env
	f13 := func(e E) fp.Func1[int, int] {
		return func(a int) int { e.call(3); return e.h(a) }
	}
	c02cases = append(c02cases,
		// ---------------------------------------------------------------- statet
		c02case{name: "statet.ApTry", pos: []int{pStep, pVal, pFn},
			run:  func(e E) c02res { return statetRes(e, statet.ApTry(statetOpOf(e, 1, f13(e)), tryOp(e, 2))) },
			want: func(e E) int { return e.h(e.v(2)) }},
		c02case{name: "statet.ApOption", pos: []int{pStep, pVal, pFn}, tags: map[int]string{2: "lib:empty"},
			run:  func(e E) c02res { return statetRes(e, statet.ApOption(statetOpOf(e, 1, f13(e)), optionOp(e, 2))) },
			want: func(e E) int { return e.h(e.v(2)) }},
		c02case{name: "statet.FlatMapConst", pos: []int{pStep, pStep},
			run:  func(e E) c02res { return statetRes(e, statet.FlatMapConst(statetOp(e, 1), statetOp(e, 2))) },
			want: func(e E) int { return e.v(2) }},
		c02case{name: "statet.WithState", pos: []int{pFn, pStep},
			run: func(e E) c02res {
				return statetRes(e, statet.WithState(func(s int) fp.StateT[int, int] { e.call(1); return statetOp(e, 2) }))
			},
			want: func(e E) int { return e.v(2) }},
		c02case{name: "statet.MapWithState", pos: []int{pStep, pFn},
			run: func(e E) c02res {
				return statetRes(e, statet.MapWithState(statetOp(e, 1), func(s int, a int) int { e.call(2); return e.h(a) }))
			},
			want: func(e E) int { return e.h(e.v(1)) }},
		c02case{name: "statet.MapT", pos: []int{pStep, pStep},
			run: func(e E) c02res {
				return statetRes(e, statet.MapT(statetOp(e, 1), func(a int) fp.Try[int] { e.call(2); return tryRet(e, 2, e.h(a)) }))
			},
			want: func(e E) int { return e.h(e.v(1)) }},
		c02case{name: "statet.MapWithStateT", pos: []int{pStep, pStep},
			run: func(e E) c02res {
				return statetRes(e, statet.MapWithStateT(statetOp(e, 1), func(s int, a int) fp.Try[int] { e.call(2); return tryRet(e, 2, e.h(a)) }))
			},
			want: func(e E) int { return e.h(e.v(1)) }},
		c02case{name: "statet.ModifyT.FlatMap.GetST", pos: []int{pStep, pFn, pStep},
			run: func(e E) c02res {
				m := statet.ModifyT(func(s int) fp.Try[int] { e.call(1); return tryRet(e, 1, s+5) })
				return statetRes(e, statet.FlatMap(m, func(fp.Unit) fp.StateT[int, int] {
					e.call(2)
					return statet.GetST(func(s int) fp.Try[int] { e.call(3); return tryRet(e, 3, e.h(s)) })
				}))
			},
			want: func(e E) int { return e.h(5) }},
		c02case{name: "statet.Concat/1", pos: []int{pStep},
			run:  func(e E) c02res { return statetRes(e, statet.Concat(statetOp(e, 1))) },
			want: func(e E) int { return e.v(1) }},
		c02case{name: "statet.Concat/2", pos: []int{pStep, pStep},
			run:  func(e E) c02res { return statetRes(e, statet.Concat(statetOp(e, 1), statetOp(e, 2))) },
			want: func(e E) int { return e.v(2) }},
		c02case{name: "statet.Concat/4", pos: []int{pStep, pStep, pStep, pStep},
			run: func(e E) c02res {
				return statetRes(e, statet.Concat(statetOp(e, 1), statetOp(e, 2), statetOp(e, 3), statetOp(e, 4)))
			},
			want: func(e E) int { return e.v(4) }},

		// ---------------------------------------------------------------- methods of fp.Try / fp.Option
		c02case{name: "Try.Map method", pos: []int{pVal, pFn},
			run:  func(e E) c02res { return tryRes(e, tryOp(e, 1).Map(func(a int) int { e.call(2); return e.h(a) })) },
			want: func(e E) int { return e.h(e.v(1)) }},
		c02case{name: "Try.FlatMap method", pos: []int{pVal, pStep},
			run: func(e E) c02res {
				return tryRes(e, tryOp(e, 1).FlatMap(func(a int) fp.Try[int] { e.call(2); return tryRet(e, 2, e.h(a)) }))
			},
			want: func(e E) int { return e.h(e.v(1)) }},
		c02case{name: "Try.FlatMap.FlatMap.Map methods", pos: []int{pVal, pStep, pStep, pFn},
			run: func(e E) c02res {
				return tryRes(e, tryOp(e, 1).
					FlatMap(func(a int) fp.Try[int] { e.call(2); return tryRet(e, 2, e.h(a)) }).
					FlatMap(func(a int) fp.Try[int] { e.call(3); return tryRet(e, 3, e.h(a)) }).
					Map(func(a int) int { e.call(4); return e.h(a) }))
			},
			want: func(e E) int { return e.h(e.h(e.h(e.v(1)))) }},
		c02case{name: "Try.Foreach method", pos: []int{pVal, pFn},
			run: func(e E) c02res {
				t := tryOp(e, 1)
				t.Foreach(func(a int) { e.call(2) })
				return tryRes(e, t)
			},
			want: func(e E) int { return e.v(1) }},
		c02case{name: "Try.All (range over func)", pos: []int{pVal, pFn},
			run: func(e E) c02res {
				t := tryOp(e, 1)
				for range t.All() {
					e.call(2)
				}
				return tryRes(e, t)
			},
			want: func(e E) int { return e.v(1) }},
		c02case{name: "option.Map method", pos: []int{pVal, pFn},
			run: func(e E) c02res {
				return optionRes(e, optionOp(e, 1).Map(func(a int) int { e.call(2); return e.h(a) }))
			},
			want: func(e E) int { return e.h(e.v(1)) }},
		c02case{name: "option.FlatMap method", pos: []int{pVal, pStep},
			run: func(e E) c02res {
				return optionRes(e, optionOp(e, 1).FlatMap(func(a int) fp.Option[int] { e.call(2); return optionRet(e, 2, e.h(a)) }))
			},
			want: func(e E) int { return e.h(e.v(1)) }},
		c02case{name: "option.FlatMap.FlatMap.Map methods", pos: []int{pVal, pStep, pStep, pFn},
			run: func(e E) c02res {
				return optionRes(e, optionOp(e, 1).
					FlatMap(func(a int) fp.Option[int] { e.call(2); return optionRet(e, 2, e.h(a)) }).
					FlatMap(func(a int) fp.Option[int] { e.call(3); return optionRet(e, 3, e.h(a)) }).
					Map(func(a int) int { e.call(4); return e.h(a) }))
			},
			want: func(e E) int { return e.h(e.h(e.h(e.v(1)))) }},
		c02case{name: "option.Filter.FilterNot methods", pos: []int{pVal, pFn, pFn},
			run: func(e E) c02res {
				return optionRes(e, optionOp(e, 1).
					Filter(func(a int) bool { e.call(2); return true }).
					FilterNot(func(a int) bool { e.call(3); return false }))
			},
			want: func(e E) int { return e.v(1) }},
		c02case{name: "option.Foreach method", pos: []int{pVal, pFn},
			run: func(e E) c02res {
				o := optionOp(e, 1)
				o.Foreach(func(a int) { e.call(2) })
				return optionRes(e, o)
			},
			want: func(e E) int { return e.v(1) }},

		// ---------------------------------------------------------------- try: Compose*, Traverse_, TraverseOption
		c02case{name: "try.ComposeOption", pos: []int{pStep, pStep}, tags: map[int]string{1: "lib:empty"},
			run: func(e E) c02res {
				f := try.ComposeOption(func(a int) fp.Option[int] { e.call(1); return optionRet(e, 1, e.h(a)) },
					func(b int) fp.Try[int] { e.call(2); return tryRet(e, 2, e.h(b)) })
				return tryRes(e, f(5))
			},
			want: func(e E) int { return e.h(e.h(5)) }},
		c02case{name: "try.ComposePure.FlatMap", pos: []int{pFn, pStep},
			run: func(e E) c02res {
				f := try.ComposePure(func(a int) int { e.call(1); return e.h(a) })
				return tryRes(e, try.FlatMap(f(5), func(b int) fp.Try[int] { e.call(2); return tryRet(e, 2, e.h(b)) }))
			},
			want: func(e E) int { return e.h(e.h(5)) }},
		c02case{name: "try.Traverse_/4", pos: []int{pStep, pStep, pStep, pStep},
			run: func(e E) c02res {
				err := try.Traverse_(iterator.FromSlice([]int{1, 2, 3, 4}), func(i int) fp.Try[int] { e.call(i); return tryRet(e, i, e.v(i)) })
				if err != nil {
					return c02res{tag: e.tagOfErr(err)}
				}
				return c02res{ok: true, val: 0}
			},
			want: func(e E) int { return 0 }},
		c02case{name: "try.TraverseOption/some", pos: []int{pStep},
			run: func(e E) c02res {
				return tryResOf(e, try.TraverseOption(option.Some(1), func(i int) fp.Try[int] { e.call(i); return tryRet(e, i, e.v(i)) }), c02optConv(e))
			},
			want: func(e E) int { return e.v(1) }},
		c02case{name: "try.TraverseOption/none", pos: []int{},
			run: func(e E) c02res {
				return tryResOf(e, try.TraverseOption(option.None[int](), func(i int) fp.Try[int] { e.call(99); return fp.Success(i) }), c02optConv(e))
			},
			want: func(e E) int { return -1 }},

		// ---------------------------------------------------------------- builders with nil operands: a nil pointer / slice handed to Ap is a value, not a failure
		c02case{name: "option.Applicative2 with nil pointer operands", pos: []int{pConst, pConst, pFn},
			run: func(e E) c02res {
				return optionRes(e, option.Applicative2(func(p *int, q []int) int { e.call(3); return e.h(len(q)) }).Ap((*int)(nil)).Ap([]int(nil)))
			},
			want: func(e E) int { return e.h(0) }},
		c02case{name: "option.Applicative3 with nil last operand", pos: []int{pVal, pConst, pConst, pFn},
			run: func(e E) c02res {
				return optionRes(e, option.Applicative3(func(a int, p *int, m map[string]int) int { e.call(4); return e.h(a, len(m)) }).
					ApOption(optionOp(e, 1)).Ap((*int)(nil)).Ap(map[string]int(nil)))
			},
			want: func(e E) int { return e.h(e.v(1), 0) }},
		c02case{name: "option.Chain2 with nil pointer operands", pos: []int{pConst, pConst, pFn},
			run: func(e E) c02res {
				return optionRes(e, option.Chain2(func(p *int, q []int) int { e.call(3); return e.h(len(q)) }).Ap((*int)(nil)).Ap([]int(nil)))
			},
			want: func(e E) int { return e.h(0) }},
		c02case{name: "option.Chain3 with nil last operand", pos: []int{pVal, pConst, pConst, pFn},
			run: func(e E) c02res {
				return optionRes(e, option.Chain3(func(a int, p *int, f func()) int { e.call(4); return e.h(a) }).
					ApOption(optionOp(e, 1)).Ap((*int)(nil)).Ap((func())(nil)))
			},
			want: func(e E) int { return e.h(e.v(1)) }},
		c02case{name: "try.Applicative2 with nil pointer operands", pos: []int{pConst, pConst, pFn},
			run: func(e E) c02res {
				return tryRes(e, try.Applicative2(func(p *int, q []int) int { e.call(3); return e.h(len(q)) }).Ap((*int)(nil)).Ap([]int(nil)))
			},
			want: func(e E) int { return e.h(0) }},
		c02case{name: "try.Chain3 with nil last operand", pos: []int{pVal, pConst, pConst, pFn},
			run: func(e E) c02res {
				return tryRes(e, try.Chain3(func(a int, p *int, err error) int { e.call(4); return e.h(a) }).
					ApTry(tryOp(e, 1)).Ap((*int)(nil)).Ap(error(nil)))
			},
			want: func(e E) int { return e.h(e.v(1)) }},
		c02case{name: "option.Some/Map/FlatMap over a nil pointer value", pos: []int{pFn, pStep},
			run: func(e E) c02res {
				o := option.Map(option.Some((*int)(nil)), func(p *int) []int { e.call(1); return nil })
				return optionRes(e, option.FlatMap(o, func(q []int) fp.Option[int] { e.call(2); return optionRet(e, 2, e.h(len(q))) }))
			},
			want: func(e E) int { return e.h(0) }},

		// ---------------------------------------------------------------- try: Option transformer helpers
		c02case{name: "try.MapOptionT/some", pos: []int{pVal, pFn},
			run: func(e E) c02res {
				return tryResOf(e, try.MapOptionT(tryOpOf(e, 1, option.Some(e.v(1))), func(a int) int { e.call(2); return e.h(a) }), c02optConv(e))
			},
			want: func(e E) int { return e.h(e.v(1)) }},
		c02case{name: "try.MapOptionT/none", pos: []int{pVal},
			run: func(e E) c02res {
				return tryResOf(e, try.MapOptionT(tryOpOf(e, 1, option.None[int]()), func(a int) int { e.call(99); return a }), c02optConv(e))
			},
			want: func(e E) int { return -1 }},
		c02case{name: "try.SubFlatMapOptionT/some", pos: []int{pVal, pFn},
			run: func(e E) c02res {
				return tryResOf(e, try.SubFlatMapOptionT(tryOpOf(e, 1, option.Some(e.v(1))), func(a int) fp.Option[int] { e.call(2); return option.Some(e.h(a)) }), c02optConv(e))
			},
			want: func(e E) int { return e.h(e.v(1)) }},
		c02case{name: "try.TraverseOptionT/some", pos: []int{pVal, pStep},
			run: func(e E) c02res {
				return tryResOf(e, try.TraverseOptionT(tryOpOf(e, 1, option.Some(e.v(1))), func(a int) fp.Try[int] { e.call(2); return tryRet(e, 2, e.h(a)) }), c02optConv(e))
			},
			want: func(e E) int { return e.h(e.v(1)) }},
		c02case{name: "try.TraverseOptionT/none", pos: []int{pVal},
			run: func(e E) c02res {
				return tryResOf(e, try.TraverseOptionT(tryOpOf(e, 1, option.None[int]()), func(a int) fp.Try[int] { e.call(99); return fp.Success(a) }), c02optConv(e))
			},
			want: func(e E) int { return -1 }},
		c02case{name: "try.FlatMapOptionT/some", pos: []int{pVal, pStep},
			run: func(e E) c02res {
				return tryResOf(e, try.FlatMapOptionT(tryOpOf(e, 1, option.Some(e.v(1))), func(a int) fp.Try[fp.Option[int]] {
					e.call(2)
					return tryOpOf(e, 2, option.Some(e.h(a)))
				}), c02optConv(e))
			},
			want: func(e E) int { return e.h(e.v(1)) }},
		c02case{name: "try.FlatMapOptionT.FlatMapOptionT", pos: []int{pVal, pStep, pStep},
			run: func(e E) c02res {
				s1 := try.FlatMapOptionT(tryOpOf(e, 1, option.Some(e.v(1))), func(a int) fp.Try[fp.Option[int]] {
					e.call(2)
					return tryOpOf(e, 2, option.Some(e.h(a)))
				})
				return tryResOf(e, try.FlatMapOptionT(s1, func(a int) fp.Try[fp.Option[int]] {
					e.call(3)
					return tryOpOf(e, 3, option.Some(e.h(a)))
				}), c02optConv(e))
			},
			want: func(e E) int { return e.h(e.h(e.v(1))) }},
		c02case{name: "try.FoldOptionT.OrElseGetOptionT", pos: []int{pVal, pFn},
			run: func(e E) c02res {
				return tryRes(e, try.FoldOptionT(tryOpOf(e, 1, option.Some(e.v(1))), 3, func(z int, a int) int { e.call(2); return e.h(z, a) }))
			},
			want: func(e E) int { return e.h(3, e.v(1)) }},
		c02case{name: "try.FilterOptionT", pos: []int{pVal, pFn},
			run: func(e E) c02res {
				return tryResOf(e, try.FilterOptionT(tryOpOf(e, 1, option.Some(e.v(1))), func(a int) bool { e.call(2); return true }), c02optConv(e))
			},
			want: func(e E) int { return e.v(1) }},

		// ---------------------------------------------------------------- try: Seq transformer helpers (outer Try fails => nothing runs)
		c02case{name: "try.MapSeqT/3", pos: []int{pVal, pFn, pFn, pFn},
			run: func(e E) c02res {
				return tryResOf(e, try.MapSeqT(tryOpOf(e, 1, fp.Seq[int]{2, 3, 4}), func(i int) int { e.call(i); return e.v(i) }), func(s fp.Seq[int]) int { return e.h(s...) })
			},
			want: func(e E) int { return e.h(e.v(2), e.v(3), e.v(4)) }},
		c02case{name: "try.SubFlatMapSeqT/2", pos: []int{pVal, pFn, pFn},
			run: func(e E) c02res {
				return tryResOf(e, try.SubFlatMapSeqT(tryOpOf(e, 1, fp.Seq[int]{2, 3}), func(i int) fp.Seq[int] { e.call(i); return fp.Seq[int]{e.v(i), i} }), func(s fp.Seq[int]) int { return e.h(s...) })
			},
			want: func(e E) int { return e.h(e.v(2), 2, e.v(3), 3) }},
		c02case{name: "try.FoldSeqT/3", pos: []int{pVal, pFn, pFn, pFn},
			run: func(e E) c02res {
				return tryRes(e, try.FoldSeqT(tryOpOf(e, 1, fp.Seq[int]{2, 3, 4}), 0, func(z int, i int) int { e.call(i); return e.h(z, i) }))
			},
			want: func(e E) int { return e.h(e.h(e.h(0, 2), 3), 4) }},
		c02case{name: "try.TraverseSeqT/3", pos: []int{pVal, pStep, pStep, pStep},
			run: func(e E) c02res {
				return tryResOf(e, try.TraverseSeqT(tryOpOf(e, 1, fp.Seq[int]{2, 3, 4}), func(i int) fp.Try[int] { e.call(i); return tryRet(e, i, e.v(i)) }), func(s fp.Seq[int]) int { return e.h(s...) })
			},
			want: func(e E) int { return e.h(e.v(2), e.v(3), e.v(4)) }},
		c02case{name: "try.FlatMapSeqT/3", pos: []int{pVal, pStep, pStep, pStep},
			run: func(e E) c02res {
				return tryResOf(e, try.FlatMapSeqT(tryOpOf(e, 1, fp.Seq[int]{2, 3, 4}), func(i int) fp.Try[fp.Seq[int]] {
					e.call(i)
					return tryOpOf(e, i, fp.Seq[int]{e.v(i), i})
				}), func(s fp.Seq[int]) int { return e.h(s...) })
			},
			want: func(e E) int { return e.h(e.v(2), 2, e.v(3), 3, e.v(4), 4) }},
		c02case{name: "try.FilterSeqT/2", pos: []int{pVal, pFn, pFn},
			run: func(e E) c02res {
				return tryResOf(e, try.FilterSeqT(tryOpOf(e, 1, fp.Seq[int]{2, 3}), func(i int) bool { e.call(i); return true }), func(s fp.Seq[int]) int { return e.h(s...) })
			},
			want: func(e E) int { return e.h(2, 3) }},
	)
}
