package props

import (
	"encoding/json"
	"fmt"
	"os"
	"sort"
	"time"

	"github.com/csgura/fp"
	"github.com/csgura/fp/as"
	"github.com/csgura/fp/immutable"
	"github.com/csgura/fp/iterator"
	"github.com/csgura/fp/lazy"
	"github.com/csgura/fp/list"
	"github.com/csgura/fp/monoid"
	"github.com/csgura/fp/ord"
	"github.com/csgura/fp/seq"
	"verif/harness/sim"
)

func init() {
	Register(&Prop{
		ID:    "C04",
		Level: "exploration",
		Rule: "one run = a branching history over a pool of live values: fp.Seq / []int inputs carved out of harness-owned arenas (sub-slices with spare capacity, overlapping windows - the aliasing-layout fault), " +
			"fp.List (strict, lazy, list.Seq over a caller slice), immutable fp.Map/fp.Set versions under adversarial hashers, Go maps handed to the library, Option/Try/tuples, and builders kept after Build (builder-reuse fault); " +
			"1-3 simulated client tasks apply the non-mutable API (Sort/Reverse/Distinct/Append/Add/Concat/Take/Drop/Init/Tail/Filter/Map/FlatMap/Fold*/Reduce/GroupBy/Scan/Zip*/Span/Partition/ToMap/ToSet/ToGoMap/ToSeq/Collect/Min/Max on seq/iterator/list; " +
			"Updated/Removed/UpdatedWith/Concat/Incl/Excl/Diff/Intersect; Option/Try methods; builder Add after Build) to randomly chosen live values, old versions included; results join the pool. " +
			"Two snapshots are taken when a value enters the pool and compared after EVERY later event: contents through the public API, and raw memory (whole arenas and backing arrays up to cap, Go maps, structural fingerprint of each retained trie). " +
			"non-trivial = an event operated on a value that has a live descendant or shares a backing array with another live value; distinct = hash of (layout, history, schedule).",
		Assumptions: []string{
			"values the API documents as views (Take/Drop/Tail/Init return sub-slices) may share storage; only a write is a violation",
			"a builder used after Build may refuse (panic) - that leaves the product unchanged and is accepted; the mutable package is excluded as the property says",
		},
		Real:     []string{"fp.Seq methods, seq / iterator / list packages", "immutable package and fp.Map/fp.Set", "fp.Option / fp.Try / tuples"},
		Stub:     []string{"memory layout of the inputs (arenas owned by the harness)", "clients and their operation order (seeded scheduler)", "hashers"},
		Quick:    Budget{Runs: 60000, Wall: 50 * time.Second},
		Thorough: Budget{Runs: 2000000, Wall: 25 * time.Minute},
		Exec:     execC04,
	})
}

type c04val struct {
	id       int
	desc     string
	contents func() string
	raw      func() string
	c0, r0   string
	kind     int // 0 seq 1 list 2 map 3 set 4 gomap 5 other
	parent   int
	kids     int
	arena    int // index of the arena its storage lives in, -1 if none
}

type c04 struct {
	r      *sim.Run
	h      fp.Hashable[int]
	arenas [][]int
	asnap  []string
	vals   []*c04val
	seqs   []int // ids of tracked values by kind
	lists  []int
	maps   []int
	sets   []int
	gomaps []int
	seqV   map[int]fp.Seq[int]
	listV  map[int]fp.List[int]
	mapV   map[int]fp.Map[int, int]
	setV   map[int]fp.Set[int]
	goV    map[int]map[int]int
	mb     *c04builder
	events int
}

type c04builder struct {
	mapB    interface{ Add(int, int) }
	setB    interface{ Add(int) }
	addMap  func(k, v int)
	addSet  func(k int)
	product int
}

func seqStr(s []int) string { return fmt.Sprint(s) }

func (c *c04) track(v *c04val) *c04val {
	v.id = len(c.vals)
	v.c0 = v.contents()
	if v.raw != nil {
		v.r0 = v.raw()
	}
	c.vals = append(c.vals, v)
	if v.parent >= 0 {
		c.vals[v.parent].kids++
	}
	return v
}

func (c *c04) addSeq(s fp.Seq[int], desc string, parent, arena int) int {
	v := c.track(&c04val{desc: desc, kind: 0, parent: parent, arena: arena,
		contents: func() string { return seqStr(s) },
		raw:      func() string { return seqStr(s[:cap(s)]) }})
	c.seqs = append(c.seqs, v.id)
	c.seqV[v.id] = s
	return v.id
}

func (c *c04) addList(l fp.List[int], desc string, parent int) int {
	v := c.track(&c04val{desc: desc, kind: 1, parent: parent, arena: -1,
		contents: func() string { return seqStr(l.ToSeq()) }})
	c.lists = append(c.lists, v.id)
	c.listV[v.id] = l
	return v.id
}

func mapStr(m fp.Map[int, int]) string {
	var out []int
	it := m.Iterator()
	for it.HasNext() {
		t := it.Next()
		out = append(out, t.I1*100000+t.I2)
	}
	sort.Ints(out)
	return fmt.Sprint(m.Size(), out)
}

func setStr(s fp.Set[int]) string {
	var out []int
	it := s.Iterator()
	for it.HasNext() {
		out = append(out, it.Next())
	}
	sort.Ints(out)
	return fmt.Sprint(s.Size(), out)
}

func (c *c04) addMap(m fp.Map[int, int], desc string, parent int) int {
	v := c.track(&c04val{desc: desc, kind: 2, parent: parent, arena: -1,
		contents: func() string { return mapStr(m) },
		raw: func() string {
			cen, err := immutable.VerifCheck(m.Base)
			if err != nil {
				return "broken trie: " + err.Error()
			}
			return fmt.Sprint(cen.Structural, cen.Entries)
		}})
	c.maps = append(c.maps, v.id)
	c.mapV[v.id] = m
	return v.id
}

func (c *c04) addSet(s fp.Set[int], desc string, parent int) int {
	v := c.track(&c04val{desc: desc, kind: 3, parent: parent, arena: -1,
		contents: func() string { return setStr(s) },
		raw: func() string {
			cen, err := immutable.VerifCheckSet(fp.VerifSetMinimal(s))
			if err != nil {
				return "broken trie: " + err.Error()
			}
			return fmt.Sprint(cen.Structural, cen.Entries)
		}})
	c.sets = append(c.sets, v.id)
	c.setV[v.id] = s
	return v.id
}

func goMapStr(m map[int]int) string {
	var out []int
	for k, v := range m {
		out = append(out, k*100000+v)
	}
	sort.Ints(out)
	return fmt.Sprint(len(m), out)
}

func (c *c04) addGoMap(m map[int]int, desc string) int {
	v := c.track(&c04val{desc: desc, kind: 4, parent: -1, arena: -1,
		contents: func() string { return goMapStr(m) }, raw: func() string { return goMapStr(m) }})
	c.gomaps = append(c.gomaps, v.id)
	c.goV[v.id] = m
	return v.id
}

func (c *c04) addOther(desc string, contents func() string) {
	c.track(&c04val{desc: desc, kind: 5, parent: -1, arena: -1, contents: contents})
}

// verify compares every live value and every arena with the snapshots taken when they entered the pool.
func (c *c04) verify(event string) (ok bool) {
	// the oracle's own reads are not scheduling points (lists are read cell by cell through the memo hooks)
	c.r.Quietly(func() { ok = c.verify1(event) })
	return
}

func (c *c04) verify1(event string) bool {
	r := c.r
	for i, a := range c.arenas {
		if got := seqStr(a); got != c.asnap[i] {
			r.Violate("input-memory-written", "event %q wrote to the backing array of an input slice (arena %d): before %s, after %s", event, i, c.asnap[i], got)
			return false
		}
	}
	for _, v := range c.vals {
		var got, raw string
		func() {
			defer func() {
				if e := recover(); e != nil {
					got = fmt.Sprintf("panic while reading: %v", e)
				}
			}()
			got = v.contents()
			if v.raw != nil {
				raw = v.raw()
			}
		}()
		if got != v.c0 {
			r.Violate("value-changed", "after event %q value %d (%s) shows %s, it showed %s when it was obtained", event, v.id, v.desc, got, v.c0)
			return false
		}
		if v.raw != nil && raw != v.r0 {
			r.Violate("memory-written", "after event %q memory reachable from value %d (%s) changed: %s -> %s", event, v.id, v.desc, v.r0, raw)
			return false
		}
	}
	return true
}

func (c *c04) pickFrom(ids []int, sel int) int {
	if len(ids) == 0 {
		return -1
	}
	if sel%2 == 0 { // recent
		return ids[len(ids)-1-(sel/2)%min(len(ids), 4)]
	}
	return ids[(sel/2)%len(ids)] // any, old ones included
}

var c04ord = ord.Given[int]()

type c04op struct {
	kind int
	sel  int
	sel2 int
	a    int
	b    int
}

const c04NOps = 80

func (c *c04) apply(op c04op, client int) bool {
	r := c.r
	c.events++
	if os.Getenv("VERIF_C04_DEBUG") != "" {
		fmt.Fprintf(os.Stderr, "event %d kind %d sel %d sel2 %d a %d b %d (lists %d)\n", c.events, op.kind, op.sel, op.sel2, op.a, op.b, len(c.lists))
	}
	desc := ""
	even := func(v int) bool { return v%2 == 0 }
	inc := func(v int) int { return v + 1 }
	nontriv := func(id int) {
		if id < 0 {
			return
		}
		v := c.vals[id]
		if v.kids > 0 || v.arena >= 0 {
			r.NonTrivial()
		}
	}
	ok := true
	func() {
		defer func() {
			if e := recover(); e != nil {
				if op.kind == 58 || op.kind == 59 { // builder refused to be used after Build: accepted
					r.Probe("builder-refused-after-build")
					desc += " (refused)"
					return
				}
				r.Violate("op-panic", "client %d: %s panicked: %v", client, desc, e)
				ok = false
			}
		}()
		sid := c.pickFrom(c.seqs, op.sel)
		var s fp.Seq[int]
		if sid >= 0 {
			s = c.seqV[sid]
		}
		S := func(name string, out fp.Seq[int]) {
			desc = fmt.Sprintf("%s on seq %d", name, sid)
			nontriv(sid)
			c.addSeq(out, fmt.Sprintf("v%d.%s", sid, name), sid, c.vals[sid].arena)
		}
		R := func(name string, _ ...any) { desc = fmt.Sprintf("%s on seq %d", name, sid); nontriv(sid) }
		k := op.kind
		if k < 40 && sid < 0 {
			return
		}
		switch k {
		case 0:
			S("seq.Sort", seq.Sort(s, c04ord))
		case 1:
			S("Reverse", s.Reverse())
		case 2:
			S("seq.Distinct", seq.Distinct(s))
		case 3:
			S(fmt.Sprintf("Append(%d,%d)", op.a, op.b), s.Append(op.a, op.b))
		case 4:
			S(fmt.Sprintf("Add(%d)", op.a), s.Add(op.a))
		case 5:
			o := c.seqV[c.pickFrom(c.seqs, op.sel2)]
			S("Concat(seq)", s.Concat(o))
		case 6:
			S(fmt.Sprintf("Take(%d)", op.a%6), s.Take(op.a%6))
		case 7:
			S(fmt.Sprintf("Drop(%d)", op.a%6), s.Drop(op.a%6))
		case 8:
			S("Init", s.Init())
		case 9:
			S("Tail", s.Tail())
		case 10:
			S("Filter", s.Filter(even))
		case 11:
			S("FilterNot", s.FilterNot(even))
		case 12:
			S("Map", s.Map(inc))
		case 13:
			S("FlatMap", s.FlatMap(func(v int) fp.Seq[int] { return fp.Seq[int]{v, v} }))
		case 14:
			S("seq.Map", seq.Map(s, inc))
		case 15:
			S("seq.FlatMap", seq.FlatMap(s, func(v int) fp.Seq[int] { return s.Take(2) }))
		case 16:
			S("seq.Concat(head)", seq.Concat(op.a, s))
		case 17:
			S("seq.Scan", seq.Scan(s, 0, func(a, b int) int { return a + b }))
		case 18:
			l, rr := seq.Span(s, even)
			S("seq.Span.left", l)
			S("seq.Span.right", rr)
		case 19:
			l, rr := seq.Partition(s, even)
			S("seq.Partition.left", l)
			S("seq.Partition.right", rr)
		case 20:
			R("seq.Fold", seq.Fold(s, 0, func(a, b int) int { return a + b }))
		case 21:
			R("seq.Reduce", seq.Reduce(s, monoid.Sum[int]()))
		case 22:
			R("seq.FoldMap", seq.FoldMap(s, monoid.Sum[int](), inc))
		case 23:
			R("seq.FoldRight", seq.FoldRight(s, 0, func(a int, acc lazy.Eval[int]) lazy.Eval[int] { return acc.Map(func(b int) int { return a + b }) }).Get())
		case 24:
			g := seq.GroupBy(s, func(v int) int { return v % 3 })
			R("seq.GroupBy")
			keys := make([]int, 0, len(g))
			for k := range g {
				keys = append(keys, k)
			}
			sort.Ints(keys)
			for _, k := range keys {
				c.addSeq(g[k], fmt.Sprintf("v%d.GroupBy[%d]", sid, k), sid, -1)
			}
		case 25:
			R("seq.Min/Max", seq.Min(s, c04ord), seq.Max(s, c04ord))
		case 26:
			ts := seq.ZipWithIndex(s)
			R("seq.ZipWithIndex/ToMap")
			c.addMap(seq.ToMap(seq.Map(ts, func(t fp.Tuple2[int, int]) fp.Tuple2[int, int] { return as.Tuple2(t.I2, t.I1) }), c.h), fmt.Sprintf("v%d.ToMap", sid), sid)
		case 27:
			R("seq.ToSet")
			c.addSet(seq.ToSet(s, c.h), fmt.Sprintf("v%d.ToSet", sid), sid)
		case 28:
			R("seq.ToGoMap/ToGoSet", seq.ToGoMap(seq.ZipWithIndex(s)), seq.ToGoSet(s))
		case 29:
			S("iterator.Sort", iterator.Sort(iterator.FromSeq(s), c04ord))
		case 30:
			S("iterator.ToSeq(Filter)", iterator.FromSlice(s).Filter(even).ToSeq())
		case 31:
			S("seq.Collect", seq.Collect(iterator.FromSeq(s).Map(inc)))
		case 32:
			S("iterator.ReverseSeq", iterator.ReverseSeq(s).ToSeq())
		case 33:
			R("list.FromSeq")
			c.addList(list.FromSeq(s), fmt.Sprintf("v%d.list.FromSeq", sid), sid)
		case 34:
			R("list.Seq view")
			c.addList(list.Seq[int](s), fmt.Sprintf("v%d.list.Seq", sid), sid)
		case 35:
			R("Find/Exists/ForAll/Get/Head/Last/MakeString", s.Find(even), s.Exists(even), s.ForAll(even), s.Get(op.a%5), s.Head(), s.Last(), s.MakeString(","))
		case 36:
			h, t := s.UnSeq()
			_ = h
			S("UnSeq.tail", t)
		case 37:
			S("seq.Flatten", seq.Flatten(fp.Seq[fp.Seq[int]]{s, s.Take(2)}))
		case 38:
			S("seq.Zip->Map", seq.Map(seq.Zip(s, s.Reverse()), func(t fp.Tuple2[int, int]) int { return t.I1 - t.I2 }))
		case 39:
			R("seq.FoldTry/FoldOption", seq.FoldTry(s, 0, func(a, b int) fp.Try[int] { return fp.Success(a + b) }), seq.FoldOption(s, 0, func(a, b int) fp.Option[int] { return fp.Some(a + b) }))

		// ---- lists
		case 40, 41, 42, 43, 44:
			lid := c.pickFrom(c.lists, op.sel)
			if lid < 0 {
				return
			}
			l := c.listV[lid]
			nontriv(lid)
			switch k {
			case 40:
				desc = fmt.Sprintf("list.Sort on list %d", lid)
				c.addSeq(list.Sort(l, c04ord), fmt.Sprintf("l%d.Sort", lid), lid, -1)
			case 41:
				desc = fmt.Sprintf("list.Map/ToSeq on list %d", lid)
				c.addSeq(list.Map(l, inc).ToSeq(), fmt.Sprintf("l%d.Map.ToSeq", lid), lid, -1)
			case 42:
				desc = fmt.Sprintf("list.Fold/GroupBy/Reduce on list %d", lid)
				_ = list.Fold(l, 0, func(a, b int) int { return a + b })
				_ = list.GroupBy(l, func(v int) int { return v % 2 })
				_ = list.Reduce(l, monoid.Sum[int]())
			case 43:
				desc = fmt.Sprintf("list.Concat/Combine on list %d", lid)
				c.addList(list.Concat(op.a, l), fmt.Sprintf("l%d.Concat", lid), lid)
				c.addList(list.Combine(l, list.Of(op.b)), fmt.Sprintf("l%d.Combine", lid), lid)
			default:
				desc = fmt.Sprintf("list.Scan/Zip on list %d", lid)
				c.addList(list.Scan(l, 0, func(a, b int) int { return a + b }), fmt.Sprintf("l%d.Scan", lid), lid)
				_ = list.ToSet(l, c.h)
			}

		// ---- maps and sets
		case 45, 46, 47, 48, 49:
			mid := c.pickFrom(c.maps, op.sel)
			if mid < 0 {
				return
			}
			m := c.mapV[mid]
			nontriv(mid)
			switch k {
			case 45:
				desc = fmt.Sprintf("Updated(%d,%d) on map %d", op.a, op.b, mid)
				c.addMap(m.Updated(op.a, op.b), fmt.Sprintf("m%d.Updated", mid), mid)
			case 46:
				desc = fmt.Sprintf("Removed(%d,%d) on map %d", op.a, op.b, mid)
				c.addMap(m.Removed(op.a, op.b), fmt.Sprintf("m%d.Removed", mid), mid)
			case 47:
				desc = fmt.Sprintf("UpdatedWith(%d) on map %d", op.a, mid)
				c.addMap(m.UpdatedWith(op.a, func(o fp.Option[int]) fp.Option[int] {
					if o.IsDefined() && op.b%2 == 0 {
						return fp.None[int]()
					}
					return fp.Some(op.b)
				}), fmt.Sprintf("m%d.UpdatedWith", mid), mid)
			case 48:
				o := c.mapV[c.pickFrom(c.maps, op.sel2)]
				desc = fmt.Sprintf("Concat(map) on map %d", mid)
				c.addMap(m.Concat(o), fmt.Sprintf("m%d.Concat", mid), mid)
			default:
				desc = fmt.Sprintf("Keys/Values/ToSeq on map %d", mid)
				c.addSeq(m.Keys().ToSeq(), fmt.Sprintf("m%d.Keys", mid), mid, -1)
			}
		case 50, 51, 52, 53:
			sid2 := c.pickFrom(c.sets, op.sel)
			if sid2 < 0 {
				return
			}
			st := c.setV[sid2]
			nontriv(sid2)
			switch k {
			case 50:
				desc = fmt.Sprintf("Incl(%d) on set %d", op.a, sid2)
				c.addSet(st.Incl(op.a), fmt.Sprintf("s%d.Incl", sid2), sid2)
			case 51:
				desc = fmt.Sprintf("Excl(%d) on set %d", op.a, sid2)
				c.addSet(st.Excl(op.a), fmt.Sprintf("s%d.Excl", sid2), sid2)
			case 52:
				o := c.setV[c.pickFrom(c.sets, op.sel2)]
				desc = fmt.Sprintf("Diff/Intersect on set %d", sid2)
				c.addSet(st.Diff(o), fmt.Sprintf("s%d.Diff", sid2), sid2)
				c.addSet(st.Intersect(o), fmt.Sprintf("s%d.Intersect", sid2), sid2)
			default:
				desc = fmt.Sprintf("Concat(seq) on set %d", sid2)
				c.addSet(st.Concat(seqIterable[int]{op.a, op.b}), fmt.Sprintf("s%d.Concat", sid2), sid2)
			}

		// ---- Go maps handed to the library
		case 54, 55:
			gid := c.pickFrom(c.gomaps, op.sel)
			if gid < 0 {
				return
			}
			g := c.goV[gid]
			nontriv(gid)
			if k == 54 {
				desc = fmt.Sprintf("seq.FromMap/FromMapKeys/FromMapValues on go map %d", gid)
				ks := seq.FromMapKeys(g)
				sort.Ints(ks)
				c.addSeq(ks, fmt.Sprintf("g%d.FromMapKeys", gid), -1, -1)
				_ = seq.FromMap(g)
				_ = seq.FromMapValues(g)
			} else {
				desc = fmt.Sprintf("iterator.FromMap/ToMap, list.FromMap on go map %d", gid)
				c.addMap(iterator.ToMap(iterator.FromMap(g), c.h), fmt.Sprintf("g%d.ToMap", gid), -1)
				_ = list.FromMapKey(g).ToSeq()
			}

		// ---- Option / Try / tuples
		case 56:
			desc = "Option/Try/Tuple methods"
			o := fp.Some(op.a)
			t := fp.Success(op.b)
			tp := as.Tuple2(op.a, op.b)
			c.addOther("Option", func() string { return fmt.Sprint(o) })
			c.addOther("Try", func() string { return fmt.Sprint(t) })
			c.addOther("Tuple2", func() string { return fmt.Sprint(tp) })
			_ = o.Map(inc).Filter(even).OrElse(1)
			_ = o.FlatMap(func(v int) fp.Option[int] { return fp.None[int]() })
			_ = t.Map(inc).Recover(func(error) int { return 0 })
			_ = t.FlatMap(func(v int) fp.Try[int] { return fp.Success(v + 1) })
			_, _ = tp.Unapply()
			_ = tp.Tail()
		case 57:
			desc = "new input slice"
			c.newInput(op.a, op.b)

		// ---- monoid.MergeSeq: Combine / Reduce over live Seqs (the left operand is not the library's to extend)
		case 60:
			sid := c.pickFrom(c.seqs, op.sel)
			oid := c.pickFrom(c.seqs, op.sel2)
			if sid < 0 || oid < 0 {
				return
			}
			nontriv(sid)
			desc = fmt.Sprintf("monoid.MergeSeq.Combine(seq %d, seq %d)", sid, oid)
			m := monoid.MergeSeq[int]()
			c.addSeq(m.Combine(c.seqV[sid], c.seqV[oid]), fmt.Sprintf("s%d.MergeSeq(s%d)", sid, oid), sid, -1)
			c.addSeq(m.Combine(c.seqV[sid], fp.Seq[int]{op.a}), fmt.Sprintf("s%d.MergeSeq([%d])", sid, op.a), sid, -1)
		case 61:
			sid := c.pickFrom(c.seqs, op.sel)
			oid := c.pickFrom(c.seqs, op.sel2)
			if sid < 0 || oid < 0 {
				return
			}
			nontriv(sid)
			desc = fmt.Sprintf("seq/list.Reduce(MergeSeq) over [seq %d, seq %d, [%d]]", sid, oid, op.b)
			parts := fp.Seq[fp.Seq[int]]{c.seqV[sid], c.seqV[oid], {op.b}}
			c.addSeq(seq.Reduce(parts, monoid.MergeSeq[int]()), fmt.Sprintf("Reduce(s%d,s%d)", sid, oid), sid, -1)
			c.addSeq(list.Reduce(list.Of(parts...), monoid.MergeSeq[int]()), fmt.Sprintf("list.Reduce(s%d,s%d)", sid, oid), sid, -1)

		// ---- bulk operations over whole residue classes of the key space: maps and sets grow past (and shrink back
		// below) the 8 / 16 / 32-way node thresholds, so that path copying is exercised on every node kind
		case 63, 64, 65:
			cls := []int{}
			m := []int{2, 3, 4, 8}[op.b%4]
			for x := 0; x < 64; x++ {
				if x%m == op.a%m {
					cls = append(cls, x)
				}
			}
			if k == 65 {
				sid2 := c.pickFrom(c.sets, op.sel)
				if sid2 < 0 {
					return
				}
				nontriv(sid2)
				desc = fmt.Sprintf("Concat(keys = %d mod %d) on set %d", op.a%m, m, sid2)
				c.addSet(c.setV[sid2].Concat(seqIterable[int](cls)), fmt.Sprintf("s%d.ConcatClass", sid2), sid2)
				return
			}
			mid := c.pickFrom(c.maps, op.sel)
			if mid < 0 {
				return
			}
			nontriv(mid)
			if k == 63 {
				desc = fmt.Sprintf("Concat(keys = %d mod %d) on map %d", op.a%m, m, mid)
				ts := fp.Seq[fp.Tuple2[int, int]]{}
				for _, x := range cls {
					ts = append(ts, as.Tuple2(x, 300+x+op.b))
				}
				c.addMap(c.mapV[mid].Concat(seqIterable[fp.Tuple2[int, int]](ts)), fmt.Sprintf("m%d.ConcatClass", mid), mid)
			} else {
				desc = fmt.Sprintf("Removed(keys = %d mod %d) on map %d", op.a%m, m, mid)
				c.addMap(c.mapV[mid].Removed(cls...), fmt.Sprintf("m%d.RemovedClass", mid), mid)
			}

		// ---- chains of single-key removals / insertions: every intermediate version stays in the pool, so a node that
		// is converted (hash-array <-> bitmap, collision -> value) is still referenced by the version before it
		case 66, 67:
			mid := c.pickFrom(c.maps, op.sel)
			if mid < 0 {
				return
			}
			nontriv(mid)
			cur, parent := c.mapV[mid], mid
			what := "Removed"
			if k == 67 {
				what = "Updated"
			}
			desc = fmt.Sprintf("chain of 6 single-key %s starting at key %d on map %d (all intermediates kept)", what, op.a, mid)
			for j := 0; j < 6; j++ {
				key := (op.a + (2*op.b+1)*j) % 64
				if k == 66 {
					cur = cur.Removed(key)
				} else {
					cur = cur.Updated(key, 900+j)
				}
				parent = c.addMap(cur, fmt.Sprintf("m%d.%s#%d", mid, what, j), parent)
			}

		// ---- an Option holding a slice / map is decoded over while an older copy of it is still alive
		case 62:
			desc = "json.Unmarshal into a variable holding Some(slice) / Some(map); the earlier Option values stay in the pool"
			box := struct {
				S fp.Option[[]int]
				M fp.Option[map[string]int]
			}{fp.Some([]int{op.a, op.b, 3}), fp.Some(map[string]int{"a": op.a})}
			oldS, oldM := box.S, box.M
			c.addOther("Option[[]int] (before a decode into the same variable)", func() string { return fmt.Sprint(oldS) })
			c.addOther("Option[map] (before a decode into the same variable)", func() string { return fmt.Sprint(oldM) })
			if err := json.Unmarshal([]byte(fmt.Sprintf(`{"S":[%d,8],"M":{"b":%d}}`, op.b+50, op.b)), &box); err != nil {
				r.Violate("map-panic", "decoding into an Option failed: %v", err)
				ok = false
				return
			}
			newS, newM := box.S, box.M
			c.addOther("Option[[]int] (decoded)", func() string { return fmt.Sprint(newS) })
			c.addOther("Option[map] (decoded)", func() string { return fmt.Sprint(newM) })

		// ---- the remaining functions of packages seq and list, read-only methods of maps and sets
		case 68, 69, 70, 71, 72, 73, 74:
			if sid < 0 {
				return
			}
			add := func(a, b int) int { return a + b }
			switch k {
			case 68:
				S("seq.Init", seq.Init(s))
				S("seq.Tail", seq.Tail(s))
			case 69:
				S("seq.Ap", seq.Ap(fp.Seq[fp.Func1[int, int]]{inc, func(v int) int { return v * 2 }}, s))
				S("seq.Map2", seq.Map2(s, s.Take(2), add))
			case 70:
				S("seq.FilterMap", seq.FilterMap(s, func(v int) fp.Option[int] {
					if even(v) {
						return fp.Some(v + 1)
					}
					return fp.None[int]()
				}))
				S("seq.Lift", seq.Lift(inc)(s))
				S("seq.LiftM", seq.LiftM(func(v int) fp.Seq[int] { return s.Take(1).Add(v) })(s))
				S("seq.Compose", seq.Compose(func(int) fp.Seq[int] { return s }, func(v int) fp.Seq[int] { return seq.Pure(v) })(0))
			case 71:
				S("seq.Pure.Concat", seq.Pure(op.a).Concat(s))
				S("seq.Empty.Concat", seq.Empty[int]().Concat(s))
				S("seq.ComposePure", seq.ComposePure(inc)(op.a).Concat(s))
			case 72:
				ptrs := make(fp.Seq[*int], 0, len(s))
				for i := range s {
					if i%3 == 2 {
						ptrs = append(ptrs, nil)
					}
					ptrs = append(ptrs, &s[i])
				}
				S("seq.FilterNil", seq.FilterNil(ptrs))
			case 73:
				sum := 0
				s.Foreach(func(v int) { sum += v })
				R("seq.Size/Head/Last/Iterator/FoldError/Foreach/NonEmpty", seq.Size(s), seq.Head(s), seq.Last(s), seq.Iterator(s).ToSeq(), s.NonEmpty(),
					seq.FoldError(s, func(v int) error {
						if v > 1000000 {
							return fmt.Errorf("big")
						}
						return nil
					}))
				S("Widen", fp.Seq[int](s.Widen()))
				S("SliceCasting", fp.SliceCasting[fp.Seq[int]]([]int(s)))
			default:
				R("list.FromSlice/ReverseSeq/ReverseSlice/Range")
				c.addList(list.FromSlice([]int(s)), fmt.Sprintf("v%d.list.FromSlice", sid), sid)
				c.addList(list.ReverseSeq(s), fmt.Sprintf("v%d.list.ReverseSeq", sid), sid)
				c.addList(list.ReverseSlice([]int(s)), fmt.Sprintf("v%d.list.ReverseSlice", sid), sid)
				c.addList(list.Range(op.a%5, op.a%5+op.b%6), "list.Range", -1)
				c.addList(list.RangeClosed(op.a%5, op.a%5+op.b%6), "list.RangeClosed", -1)
			}
		case 75, 76:
			lid := c.pickFrom(c.lists, op.sel)
			if lid < 0 {
				return
			}
			l := c.listV[lid]
			nontriv(lid)
			add := func(a, b int) int { return a + b }
			if k == 75 {
				desc = fmt.Sprintf("list.Map2/FilterMap/FlatMap/ZipWithIndex/Zip3/Flatten/Ap on list %d", lid)
				o := c.listV[c.pickFrom(c.lists, op.sel2)]
				firstN := func(x fp.List[int], n int) fp.List[int] {
					var out []int
					for ; n > 0 && x.NonEmpty(); n-- {
						out = append(out, x.Head())
						x = x.Tail()
					}
					return list.Of(out...)
				}
				c.addList(list.Map2(firstN(l, 2), firstN(o, 3), add), fmt.Sprintf("l%d.Map2", lid), lid)
				// (list.FlatMap re-instantiates itself for the head and for the tail of every element whose sub-list is
				// empty: a run of k filtered-out elements costs 2^k, so these inputs are kept short)
				c.addList(list.FilterMap(firstN(l, 8), func(v int) fp.Option[int] {
					if even(v) {
						return fp.Some(v + 1)
					}
					return fp.None[int]()
				}), fmt.Sprintf("l%d.FilterMap", lid), lid)
				c.addList(list.FlatMap(firstN(l, 8), func(v int) fp.List[int] { return list.Of(v, v) }), fmt.Sprintf("l%d.FlatMap", lid), lid)
				c.addList(list.Map(list.ZipWithIndex(l), func(t fp.Tuple2[int, int]) int { return t.I1*100 + t.I2 }), fmt.Sprintf("l%d.ZipWithIndex", lid), lid)
				c.addList(list.Map(list.Zip3(l, o, l), func(t fp.Tuple3[int, int, int]) int { return t.I1 + t.I2 + t.I3 }), fmt.Sprintf("l%d.Zip3", lid), lid)
				c.addList(list.Flatten(list.Of(firstN(l, 8), list.Empty[int](), firstN(o, 8))), fmt.Sprintf("l%d.Flatten", lid), lid)
				c.addList(list.Ap(list.Of(fp.Func1[int, int](inc)), l), fmt.Sprintf("l%d.Ap", lid), lid)
			} else {
				desc = fmt.Sprintf("list.FoldLeft/FoldTry/FoldOption/FoldError/FoldMap/Fold*UsingMap/Min/Max/ToMap/ToGoMap/ToGoSet/Head/Foreach/Unapply on list %d", lid)
				_ = list.FoldLeft(l, 0, add)
				_ = list.FoldTry(l, 0, func(a, b int) fp.Try[int] { return fp.Success(a + b) })
				_ = list.FoldOption(l, 0, func(a, b int) fp.Option[int] { return fp.Some(a + b) })
				_ = list.FoldError(l, func(int) error { return nil })
				_ = list.FoldMap(l, monoid.Sum[int](), inc)
				_ = list.FoldLeftUsingMap(l, 0, add)
				_ = list.FoldRightUsingMap(l, 0, add)
				_, _ = list.Min(l, c04ord), list.Max(l, c04ord)
				zi := list.ZipWithIndex(l)
				c.addMap(list.ToMap(zi, c.h), fmt.Sprintf("l%d.ToMap", lid), lid)
				_ = list.ToGoMap(zi)
				_ = list.ToGoSet(l)
				_ = list.Head(l)
				n := 0
				l.Foreach(func(int) { n++ })
				if l.NonEmpty() {
					_, tl := l.Unapply()
					c.addList(tl, fmt.Sprintf("l%d.Unapply.tail", lid), lid)
				}
			}
		case 77:
			mid := c.pickFrom(c.maps, op.sel)
			sid2 := c.pickFrom(c.sets, op.sel2)
			if mid < 0 || sid2 < 0 {
				return
			}
			m, st := c.mapV[mid], c.setV[sid2]
			nontriv(mid)
			desc = fmt.Sprintf("IsEmpty/NonEmpty/Contains/Values/Foreach/String on map %d, Foreach/SubsetOf/String/IsEmpty/NonEmpty on set %d", mid, sid2)
			n := 0
			m.Foreach(func(fp.Tuple2[int, int]) { n++ })
			st.Foreach(func(int) { n++ })
			_, _, _, _, _ = m.IsEmpty(), m.NonEmpty(), m.Contains(op.a), m.String(), st.String()
			_, _, _ = st.IsEmpty(), st.NonEmpty(), st.SubsetOf(c.setV[c.pickFrom(c.sets, op.sel)])
			c.addSeq(m.Values().ToSeq(), fmt.Sprintf("m%d.Values", mid), mid, -1)

		case 78:
			// variadic constructors called with a spread slice: the callee receives the caller's slice itself
			if sid < 0 {
				return
			}
			R("immutable.Set(h, s...) / immutable.Map(h, tuples...)")
			c.addSet(immutable.Set(c.h, s...), fmt.Sprintf("v%d.immutable.Set(spread)", sid), sid)
			ts := make([]fp.Tuple2[int, int], len(s))
			for i, v := range s {
				ts[i] = as.Tuple2(v*7%97, i)
			}
			c.addOther(fmt.Sprintf("[]Tuple2 built from seq %d, later spread into immutable.Map", sid), func() string { return fmt.Sprint(ts) })
			c.addMap(immutable.Map(c.h, ts...), fmt.Sprintf("v%d.immutable.Map(spread)", sid), sid)

		case 79:
			// the monoids over collections: Combine must build a new value, whatever its operands look like - also an
			// allocated but empty Go map / Seq on the left (what Empty() hands out, kept by the caller)
			gid := c.pickFrom(c.gomaps, op.sel)
			gid2 := c.pickFrom(c.gomaps, op.sel2)
			if gid < 0 || gid2 < 0 {
				return
			}
			desc = fmt.Sprintf("monoid.MergeGoMap/MergeMap/MergeSet/MergeSeq/MergeSlice Combine on go maps %d, %d (and Empty() values kept by the caller)", gid, gid2)
			nontriv(gid)
			mg := monoid.MergeGoMap[int, int]()
			e := mg.Empty()
			c.addGoMap(e, "MergeGoMap.Empty()")
			c.addGoMap(mg.Combine(e, c.goV[gid]), fmt.Sprintf("Combine(Empty(), g%d)", gid))
			c.addGoMap(mg.Combine(e, c.goV[gid2]), fmt.Sprintf("Combine(Empty(), g%d) again on the same Empty()", gid2))
			c.addGoMap(mg.Combine(c.goV[gid], c.goV[gid2]), fmt.Sprintf("Combine(g%d, g%d)", gid, gid2))
			if mid := c.pickFrom(c.maps, op.sel); mid >= 0 {
				mm := monoid.MergeMap[int, int]()
				c.addMap(mm.Combine(c.mapV[mid], c.mapV[c.pickFrom(c.maps, op.sel2)]), fmt.Sprintf("MergeMap.Combine(m%d, ..)", mid), mid)
			}
			if sid2 := c.pickFrom(c.sets, op.sel); sid2 >= 0 {
				ms := monoid.MergeSet[int]()
				c.addSet(ms.Combine(c.setV[sid2], c.setV[c.pickFrom(c.sets, op.sel2)]), fmt.Sprintf("MergeSet.Combine(s%d, ..)", sid2), sid2)
			}
			if sid >= 0 {
				es := monoid.MergeSeq[int]().Empty()
				c.addSeq(es, "MergeSeq.Empty()", -1, -1)
				c.addSeq(monoid.MergeSeq[int]().Combine(es, s), fmt.Sprintf("MergeSeq.Combine(Empty(), v%d)", sid), sid, -1)
				c.addSeq(monoid.MergeSeq[int]().Combine(s.Take(2), s), fmt.Sprintf("MergeSeq.Combine(v%d.Take(2), v%d)", sid, sid), sid, c.vals[sid].arena)
				c.addSeq(fp.Seq[int](monoid.MergeSlice[int]().Combine([]int(s.Take(1)), []int(s))), fmt.Sprintf("MergeSlice.Combine(v%d.Take(1), v%d)", sid, sid), sid, c.vals[sid].arena)
			}

		// ---- builders kept after Build
		case 58, 59:
			if c.mb == nil {
				return
			}
			if k == 58 && c.mb.addMap != nil {
				desc = fmt.Sprintf("MapBuilder.Add(%d,%d) after Build (product value %d)", op.a, op.b, c.mb.product)
				r.Fault("builder-reused-after-build")
				nontriv(c.mb.product)
				c.mb.addMap(op.a, op.b)
			} else if k == 59 && c.mb.addSet != nil {
				desc = fmt.Sprintf("SetBuilder.Add(%d) after Build (product value %d)", op.a, c.mb.product)
				r.Fault("builder-reused-after-build")
				nontriv(c.mb.product)
				c.mb.addSet(op.a)
			}
		}
	}()
	if !ok {
		return false
	}
	if desc == "" {
		return true
	}
	r.MixFingerprintS(desc)
	if r.LogOn {
		r.Logf("  event %d client %d: %s", c.events, client, desc)
	}
	return c.verify(desc)
}

// newInput carves a slice out of an arena: offset a, length b, with or without spare capacity.
func (c *c04) newInput(a, b int) {
	r := c.r
	ai := a % len(c.arenas)
	ar := c.arenas[ai]
	off := (a / 7) % (len(ar) - 8)
	ln := b % 8
	var s fp.Seq[int]
	layout := "spare capacity"
	if b%3 == 0 {
		s = ar[off : off+ln : off+ln]
		layout = "exact capacity"
	} else {
		s = ar[off : off+ln]
		r.Fault("input-with-spare-capacity")
	}
	for _, id := range c.seqs {
		if c.vals[id].arena == ai {
			r.Fault("overlapping-inputs")
			break
		}
	}
	c.addSeq(s, fmt.Sprintf("input arena%d[%d:%d] (%s)", ai, off, off+ln, layout), -1, ai)
}

func execC04(r *sim.Run) {
	r.Case = "history"
	// every re-inspection of a lazy list passes the yield hook of fp.Memoize once per cell, so the number of scheduler
	// steps grows with (events x live values); the default cap is meant for lock-free retry loops, not for this
	r.MaxSteps = 2000000
	c := &c04{r: r, seqV: map[int]fp.Seq[int]{}, listV: map[int]fp.List[int]{}, mapV: map[int]fp.Map[int, int]{}, setV: map[int]fp.Set[int]{}, goV: map[int]map[int]int{}}
	c.h = c03Hasher(r)
	// arenas with unsorted, partly repeated content so that Sort/Distinct have something to do
	nAr := r.Range(1, 2, "nArenas")
	for i := 0; i < nAr; i++ {
		ar := make([]int, 24)
		for j := range ar {
			ar[j] = r.Choose(9, "cell")
		}
		c.arenas = append(c.arenas, ar)
		c.asnap = append(c.asnap, seqStr(ar))
	}
	nIn := r.Range(1, 3, "nInputs")
	for i := 0; i < nIn; i++ {
		c.newInput(r.Choose(200, "inA"), 1+r.Choose(40, "inB"))
	}
	// initial map / set / go map, some through builders that are kept
	g := map[int]int{}
	for i := r.Choose(6, "goN"); i > 0; i-- {
		g[r.Choose(12, "gk")] = 50 + i
	}
	c.addGoMap(g, "go map input")
	mb := immutable.MapBuilder[int, int](c.h)
	sb := immutable.SetBuilder(c.h)
	for i := r.Choose(12, "builderN"); i > 0; i-- {
		k := r.Choose(30, "bk")
		mb.Add(k, 100+i)
		sb.Add(k)
	}
	keepMap := r.Choose(2, "keepWhich") == 0
	if keepMap {
		id := c.addMap(mb.Build(), "MapBuilder.Build", -1)
		c.addSet(sb.Build(), "SetBuilder.Build", -1)
		c.mb = &c04builder{addMap: func(k, v int) { mb.Add(k, v) }, product: id}
	} else {
		c.addMap(mb.Build(), "MapBuilder.Build", -1)
		id := c.addSet(sb.Build(), "SetBuilder.Build", -1)
		c.mb = &c04builder{addSet: func(k int) { sb.Add(k) }, product: id}
	}
	// the zero values route through fp's own UnsafeGoMap / UnsafeGoSet (not the immutable package); they are values the
	// library hands out all the same, so "no call writes to memory reachable from a value it has previously returned" applies
	if r.Choose(2, "zeroValues") == 1 {
		zs := fp.Set[int]{}
		for i := r.Choose(4, "zeroSetN"); i > 0; i-- {
			zs = zs.Incl(r.Choose(12, "zk"))
		}
		c.addSet(zs, "zero Set + Incl", -1)
		zm := fp.Map[int, int]{}
		for i := r.Choose(4, "zeroMapN"); i > 0; i-- {
			zm = zm.Updated(r.Choose(12, "zk"), 70+i)
		}
		c.addMap(zm, "zero Map + Updated", -1)
		r.Probe("pool-has-zero-value-collections")
	}
	c.addList(list.Of(3, 1, 2), "list.Of", -1)
	c.addList(list.Generate(func(i int) fp.Option[int] {
		if i >= 4 {
			return fp.None[int]()
		}
		return fp.Some(10 - i)
	}), "list.Generate", -1)
	if !c.verify("construction") {
		return
	}
	nClients := r.Range(1, 3, "nClients")
	nOps := []int{4, 10, 24, 48, 96}[r.Choose(5, "length")]
	for cl := 0; cl < nClients; cl++ {
		cl := cl
		ops := make([]c04op, nOps/nClients+1)
		for i := range ops {
			ops[i] = c04op{kind: r.Choose(c04NOps, "op"), sel: r.Choose(16, "sel"), sel2: r.Choose(16, "sel2"), a: r.Choose(40, "a"), b: r.Choose(40, "b")}
		}
		r.Go(fmt.Sprintf("client%d", cl), func(t *sim.Task) {
			for _, op := range ops {
				t.Yield("op")
				if !c.apply(op, cl) {
					return
				}
			}
		})
	}
	r.RunToQuiescence()
	if r.Failed() {
		return
	}
	for _, t := range r.Unfinished() {
		r.Violate("stuck-task", "task %d:%s not finished", t.ID, t.Name)
		return
	}
	c.verify("end of history")
	r.ProbeN("live-values", len(c.vals))
	r.ProbeN("events", c.events)
}
