package props

import (
	"errors"
	"fmt"
	"strings"
	"time"

	"github.com/csgura/fp"
	"github.com/csgura/fp/statet"
	"verif/harness/sim"
)

func init() {
	Register(&Prop{
		ID:    "C02",
		Level: "fault_enumeration",
		Rule: "one run = one combinator instance (effect in {try, option, either, statet}; family and arity from the generated table; builder argument variants drawn from the seed) " +
			"executed under the no-fault plan, under EVERY single-fault plan (one position x fail), and under seeded multi-fault plans; plus Recover*/Or*/OrElse* cases " +
			"(receiver success/failure x handler behaviour) and panic-capture cases (try.Of/Call/CallUnit, and future.Apply/Apply2/Func1-3 run under the task scheduler) over seeded panic values. " +
			"Every function argument is an instrumented callback logging (position, call#); every failing operand carries a sentinel unique to its position. " +
			"Oracle: result = failure of the left-most faulted position with that sentinel (errors.Is / None / Left value); call log = exactly the callbacks positioned before it (and the failing callback itself), once each, in order; " +
			"handlers run iff the receiver failed and successes pass unchanged; panics surface as Failure exposing the panic value. " +
			"non-trivial = a plan with at least one injected fault whose combinator has at least one later position; distinct = (case, argument variants, fault plan).",
		Assumptions: []string{
			"positions are ordered as the combinator's documented left-to-right evaluation order; plain operands of Try/Option/Either are values (no call is expected for them), StateT operands are steps and are instrumented",
			"panic(nil) is excluded (Go >= 1.21 replaces the value by *runtime.PanicNilError)",
		},
		Real:     []string{"try, option, either, statet packages (generated monad/traverse families, builders)", "fp.Try/Option/Either/StateT methods", "future.Apply/Apply2/Func*"},
		Stub:     []string{"user callbacks (instrumented; fail or panic according to the fault plan)", "Go scheduler for the future.Apply family (seeded)"},
		Quick:    Budget{Runs: 1500000, Wall: 45 * time.Second},
		Thorough: Budget{Runs: 100000000, Wall: 20 * time.Minute},
		Exec:     execC02,
	})
}

const (
	pVal   = iota // plain operand value: may fail; no call expected
	pStep         // instrumented effectful callback / supplier / StateT step: called once; may fail
	pFn           // pure callback: called once; cannot fail
	pConst        // plain value that cannot fail (Ap(a))
)

type c02pos struct {
	kind int
	tag  string // failure tag when this position fails ("" = "pos<i>")
}

type c02res struct {
	ok  bool
	val int
	tag string
}

func (r c02res) String() string {
	if r.ok {
		return fmt.Sprintf("Success(%d)", r.val)
	}
	return "Failure(" + r.tag + ")"
}

type c02env struct {
	r        *sim.Run
	pos      []c02pos // 1-based: pos[0] unused
	fails    map[int]bool
	calls    []int
	pulls    []int
	asked    int // HasNext calls on the on-demand source (a HasNext may itself compute the next element)
	errs     map[int]error
	vars     []int // variant draws of dynamic cases
	extra    string
	headBad  string
	rerunBad string
	isOption bool
	wrapLib  bool // operands' own errors wrap the library's sentinel fp.ErrOptionEmpty
}

// checkHead: a Chain continuation at position p must receive the value of argument p-1.
func (e *c02env) checkHead(p int, got int) {
	if got != e.v(p-1) && e.headBad == "" {
		e.headBad = fmt.Sprintf("continuation of argument %d received %d, argument %d was %d", p, got, p-1, e.v(p-1))
	}
}

func (e *c02env) reset() {
	e.calls = e.calls[:0]
	e.pulls = e.pulls[:0]
	e.asked = 0
}

// c02src is an on-demand source of the elements 1..n: an element exists only once it has been pulled, and every pull is logged.
func c02src(e *c02env, n int) fp.Iterator[int] {
	return c02srcOf(e, n, func(i int) int { return i })
}

func c02srcOf[T any](e *c02env, n int, mk func(i int) T) fp.Iterator[T] {
	next := 1
	return fp.MakeIterator(func() bool { e.asked++; return next <= n }, func() T {
		if next > n {
			panic("next on exhausted source")
		}
		i := next
		next++
		e.pulls = append(e.pulls, i)
		return mk(i)
	})
}

func (e *c02env) call(p int)         { e.calls = append(e.calls, p) }
func (e *c02env) failing(p int) bool { return e.fails[p] }
func (e *c02env) v(p int) int        { return 10 + p }
func (e *c02env) h(vals ...int) int {
	h := 7
	for _, v := range vals {
		h = (h*31 + v) % 1000003
	}
	return h
}
func (e *c02env) err(p int) error {
	if x, ok := e.errs[p]; ok {
		return x
	}
	x := fmt.Errorf("pos%d", p)
	if e.wrapLib {
		// an operand's own error that happens to wrap a sentinel the library also uses must still come back unchanged
		x = fmt.Errorf("pos%d: %w", p, fp.ErrOptionEmpty)
	}
	e.errs[p] = x
	return x
}

func (e *c02env) tagOfErr(err error) string {
	if err == nil {
		return "<nil error>"
	}
	// (positions in ascending order, never in map order; an error that carries the sentinels of SEVERAL positions -
	// errors.Join of the first and a later failure - is not "that operand's own error value unchanged")
	var hits []string
	for p := 0; p < len(e.pos)+2; p++ {
		if x, ok := e.errs[p]; ok && errors.Is(err, x) {
			hits = append(hits, fmt.Sprintf("pos%d", p))
		}
	}
	if len(hits) > 0 {
		return strings.Join(hits, "+")
	}
	if errors.Is(err, fp.ErrOptionEmpty) {
		return "lib:empty"
	}
	var pe interface{ Panic() any }
	if errors.As(err, &pe) {
		return fmt.Sprintf("panic:%v", pe.Panic())
	}
	return "unknown:" + firstLineOf(err.Error())
}

// ---- try helpers

func tryOp(e *c02env, p int) fp.Try[int] { return tryOpOf(e, p, e.v(p)) }
func tryOpOf[T any](e *c02env, p int, v T) fp.Try[T] {
	if e.failing(p) {
		return fp.Failure[T](e.err(p))
	}
	return fp.Success(v)
}
func tryRet(e *c02env, p int, v int) fp.Try[int] { return tryOpOf(e, p, v) }
func tryResOf[T any](e *c02env, t fp.Try[T], conv func(T) int) c02res {
	if bad := tryViewsDisagree(t); bad != "" && e.headBad == "" {
		e.headBad = bad
	}
	if t.IsSuccess() {
		return c02res{ok: true, val: conv(t.Get())}
	}
	return c02res{tag: e.tagOfErr(t.Failed().Get())}
}

// tryViewsDisagree: a Try is observed through IsSuccess/Get/Failed and through Unapply (which try.Traverse_, Fold and
// the generated code use); a Success must hand out a nil error and a Failure its own error whichever view is taken.
func tryViewsDisagree[T any](t fp.Try[T]) string {
	_, err := t.Unapply()
	switch {
	case t.IsSuccess() == t.IsFailure():
		return fmt.Sprintf("a Try reports IsSuccess=%v and IsFailure=%v", t.IsSuccess(), t.IsFailure())
	case t.IsSuccess() && err != nil:
		return fmt.Sprintf("a successful Try hands out the error %q through Unapply", err)
	case t.IsFailure() && (err == nil || !errors.Is(err, t.Failed().Get())):
		return fmt.Sprintf("a failed Try hands out %v through Unapply and %v through Failed", err, t.Failed().Get())
	}
	return ""
}
func tryRes(e *c02env, t fp.Try[int]) c02res { return tryResOf(e, t, fp.Id[int]) }

// ---- option helpers

func optionOp(e *c02env, p int) fp.Option[int] { return optionOpOf(e, p, e.v(p)) }
func optionOpOf[T any](e *c02env, p int, v T) fp.Option[T] {
	if e.failing(p) {
		return fp.None[T]()
	}
	return fp.Some(v)
}
func optionRet(e *c02env, p int, v int) fp.Option[int] { return optionOpOf(e, p, v) }
func optionResOf[T any](e *c02env, t fp.Option[T], conv func(T) int) c02res {
	if t.IsDefined() {
		return c02res{ok: true, val: conv(t.Get())}
	}
	return c02res{tag: "none"}
}
func optionRes(e *c02env, t fp.Option[int]) c02res { return optionResOf(e, t, fp.Id[int]) }

// ---- either helpers (Left carries the failing position)

func eitherOp(e *c02env, p int) fp.Either[int, int] { return eitherOpOf(e, p, e.v(p)) }
func eitherOpOf[T any](e *c02env, p int, v T) fp.Either[int, T] {
	if e.failing(p) {
		return fp.Left[int, T](p)
	}
	return fp.Right[int, T](v)
}
func eitherRet(e *c02env, p int, v int) fp.Either[int, int] { return eitherOpOf(e, p, v) }
func eitherResOf[T any](e *c02env, t fp.Either[int, T], conv func(T) int) c02res {
	if t.IsRight() {
		return c02res{ok: true, val: conv(t.Get())}
	}
	return c02res{tag: fmt.Sprintf("pos%d", t.Left())}
}
func eitherRes(e *c02env, t fp.Either[int, int]) c02res { return eitherResOf(e, t, fp.Id[int]) }

// ---- statet helpers: every operand is an instrumented step

func statetOp(e *c02env, p int) fp.StateT[int, int] { return statetOpOf(e, p, e.v(p)) }
func statetOpOf[T any](e *c02env, p int, v T) fp.StateT[int, T] {
	return func(s int) (fp.Try[T], int) {
		e.call(p)
		if e.failing(p) {
			return fp.Failure[T](e.err(p)), s + 1
		}
		return fp.Success(v), s + 1
	}
}

// statetRet is the value returned by an effectful callback that has already logged its call.
func statetRet(e *c02env, p int, v int) fp.StateT[int, int] {
	if e.failing(p) {
		return statet.FromTry[int](fp.Failure[int](e.err(p)))
	}
	return statet.Pure[int](v)
}
func statetResOf[T any](e *c02env, t fp.StateT[int, T], conv func(T) int) c02res {
	r, s1 := t.Run(0)
	first := tryResOf(e, r, conv)
	// a StateT is a value: executing it again from the same state must fail (or succeed) in the same way - a failure
	// must not be lost because the value was run before. (Which callbacks run again is not compared: functions applied
	// while the StateT was being built, e.g. the first stage of Compose, legitimately run once only.)
	calls1 := append([]int(nil), e.calls...)
	e.calls = e.calls[:0]
	r2, s2 := t.Run(0)
	second := tryResOf(e, r2, conv)
	if e.rerunBad == "" && (second != first || s1 != s2) {
		e.rerunBad = fmt.Sprintf("first execution: %s, final state %d; second execution of the same StateT from the same state: %s, final state %d", first, s1, second, s2)
	}
	e.calls = calls1
	return first
}
func statetRes(e *c02env, t fp.StateT[int, int]) c02res { return statetResOf(e, t, fp.Id[int]) }

func sumHash(e *c02env) func([]int) int { return func(s []int) int { return e.h(s...) } }

// ---------------------------------------------------------------- cases

type c02case struct {
	name string
	// prep draws variants (dynamic cases) and declares e.pos; static cases have pos set by the table
	prep func(e *c02env)
	pos  []int // static position kinds (1-based order)
	tags map[int]string
	run  func(e *c02env) c02res
	want func(e *c02env) int
	// srcN > 0: positions 1..srcN are the elements of an instrumented on-demand source iterator (c02src);
	// for try/option/either the source must be pulled exactly up to the first failing position
	srcN int
}

var c02cases []c02case

// expected outcome for a plan
func (e *c02env) expect(want int) (c02res, []int) {
	var calls []int
	for p := 1; p < len(e.pos); p++ {
		k := e.pos[p]
		switch k.kind {
		case pFn:
			calls = append(calls, p)
		case pStep:
			calls = append(calls, p)
			if e.fails[p] {
				return c02res{tag: e.tagFor(p)}, calls
			}
		case pVal:
			if e.fails[p] {
				return c02res{tag: e.tagFor(p)}, calls
			}
		}
	}
	return c02res{ok: true, val: want}, calls
}

func (e *c02env) tagFor(p int) string {
	if e.isOption {
		return "none" // None carries no identity
	}
	if e.pos[p].tag != "" {
		return e.pos[p].tag
	}
	return fmt.Sprintf("pos%d", p)
}

func (e *c02env) failable() []int {
	var out []int
	for p := 1; p < len(e.pos); p++ {
		if e.pos[p].kind == pVal || e.pos[p].kind == pStep {
			out = append(out, p)
		}
	}
	return out
}

func execC02(r *sim.Run) {
	switch r.ChooseWith(3, "class", func(g *sim.Rng) int {
		x := g.Intn(20)
		switch {
		case x < 15:
			return 0
		case x < 18:
			return 1
		}
		return 2
	}) {
	case 0:
		c02Combinator(r)
	case 1:
		c02Recover(r)
	default:
		c02Panics(r)
	}
}

func c02Combinator(r *sim.Run) {
	ci := r.Choose(len(c02cases), "case")
	cs := &c02cases[ci]
	e := &c02env{r: r, errs: map[int]error{}, fails: map[int]bool{}, isOption: strings.HasPrefix(cs.name, "option."), wrapLib: r.Choose(4, "errorsWrapLibSentinel") == 3}
	if cs.prep != nil {
		cs.prep(e)
	} else {
		e.pos = make([]c02pos, len(cs.pos)+1)
		for i, k := range cs.pos {
			e.pos[i+1] = c02pos{kind: k, tag: cs.tags[i+1]}
		}
	}
	fam := cs.name
	if i := strings.IndexAny(fam, "0123456789/"); i > 0 {
		fam = fam[:i]
	}
	r.Case = "combinator:" + fam
	name := cs.name + e.extra
	r.MixFingerprintS(name)
	fail := e.failable()

	runPlan := func(plan []int) bool {
		e.fails = map[int]bool{}
		for _, p := range plan {
			e.fails[p] = true
		}
		e.reset()
		e.rerunBad = ""
		want := 0
		if cs.want != nil {
			e.fails = map[int]bool{}
			want = cs.want(e)
			for _, p := range plan {
				e.fails[p] = true
			}
		}
		expRes, expCalls := e.expect(want)
		var got c02res
		var pan any
		func() {
			defer func() { pan = recover() }()
			got = cs.run(e)
		}()
		r.Probe("plans-executed")
		if len(plan) > 0 {
			r.Fault("operand-or-callback-fails")
		}
		desc := func() string { return fmt.Sprintf("%s with failing position(s) %v of %s", name, plan, e.describe()) }
		if pan != nil {
			r.Violate("combinator-panic:"+fam, "%s panicked: %v", desc(), pan)
			return false
		}
		if e.headBad != "" {
			r.Violate("chain-head:"+fam, "%s: %s", desc(), e.headBad)
			return false
		}
		if e.rerunBad != "" {
			r.Violate("rerun-differs:"+fam, "%s: %s", desc(), e.rerunBad)
			return false
		}
		if got != expRes {
			cls := "wrong-result"
			if !got.ok && !expRes.ok {
				cls = "wrong-failure"
			}
			r.Violate(cls+":"+fam, "%s returned %s, want %s", desc(), got, expRes)
			return false
		}
		if cs.srcN > 0 && !strings.HasPrefix(cs.name, "statet.") {
			// (statet.FoldM builds its chain of steps from the whole source before any step runs: not a failure-dependent pull)
			var expPulls []int
			for p := 1; p <= cs.srcN; p++ {
				expPulls = append(expPulls, p)
				if e.fails[p] {
					break
				}
			}
			r.Probe("on-demand-sources-checked")
			// after the failing element the source is not consulted again at all: on sources whose HasNext does the work
			// (TakeWhile, scanners) one more HasNext is one more element computed
			failed := false
			for p := 1; p <= cs.srcN; p++ {
				failed = failed || e.fails[p]
			}
			maxAsked := len(expPulls) + 1
			if failed {
				maxAsked = len(expPulls)
			}
			if e.asked > maxAsked && fmt.Sprint(e.pulls) == fmt.Sprint(expPulls) {
				r.Violate("source-overpulled:"+fam, "%s asked its on-demand source HasNext %d times for %d pulled element(s) (want at most %d: nothing is asked after the first failing element)", desc(), e.asked, len(e.pulls), maxAsked)
				return false
			}
			if fmt.Sprint(e.pulls) != fmt.Sprint(expPulls) {
				r.Violate("source-overpulled:"+fam, "%s pulled elements %v from its on-demand source, want %v (nothing after the first failing element)", desc(), e.pulls, expPulls)
				return false
			}
		}
		if fmt.Sprint(e.calls) != fmt.Sprint(expCalls) {
			r.Violate("wrong-calls:"+fam, "%s invoked callbacks at positions %v, want %v (each once, in order, none after the first failure)", desc(), e.calls, expCalls)
			return false
		}
		return true
	}

	sim.NoteCase("C02 " + name)
	// no-fault plan, then every single-fault plan (complete), then seeded multi-fault plans
	if !runPlan(nil) {
		return
	}
	for _, p := range fail {
		if !runPlan([]int{p}) {
			return
		}
		if p < len(e.pos)-1 {
			r.NonTrivial()
		}
	}
	if len(fail) >= 2 {
		n := r.Choose(4, "multiPlans")
		for i := 0; i < n; i++ {
			var plan []int
			for _, p := range fail {
				if r.Choose(2, "failHere") == 1 {
					plan = append(plan, p)
				}
			}
			r.MixFingerprintS(fmt.Sprint(plan))
			if !runPlan(plan) {
				return
			}
		}
	}
}

func (e *c02env) describe() string {
	var sb strings.Builder
	kinds := [...]string{"val", "step", "fn", "const"}
	for p := 1; p < len(e.pos); p++ {
		if p > 1 {
			sb.WriteString(",")
		}
		fmt.Fprintf(&sb, "%d:%s", p, kinds[e.pos[p].kind])
	}
	return "[" + sb.String() + "]"
}
