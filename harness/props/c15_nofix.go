//go:build !c15fix

package props

// Without the build tag c15fix the harness is built against /repo as it is; the gombok-generated fixture shapes
// (see harness/c15fixture and props/c15_fix.go) are not available.
const c15FixN = 0

func c15Fixture(c *c15ctx, kind int, s1, s2 string, i1, i3 int, preDef bool) {}
