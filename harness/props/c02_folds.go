package props

import (
	"fmt"

	"github.com/csgura/fp"
	"github.com/csgura/fp/iterator"
	"github.com/csgura/fp/list"
	"github.com/csgura/fp/seq"
)

// c02Runaway is raised by a fold callback that is invoked far more often than the container has elements (a fold that
// does not advance would otherwise never return).
type c02Runaway struct{ calls []int }

func (r c02Runaway) String() string {
	return fmt.Sprintf("callback invoked again and again, first calls at positions %v", r.calls)
}

// C02, monadic folds (foldM): seq/list/iterator FoldTry, FoldOption, FoldError over four elements. The step function
// of an element after the first failure is not invoked, the earlier ones exactly once and in order, the failure is the
// failing element's own.
func init() {
	type E = *c02env
	four := []int{pStep, pStep, pStep, pStep}
	none := map[int]string{1: "none", 2: "none", 3: "none", 4: "none"} // None carries no identity
	guard := func(e E, i int) {
		e.call(i)
		if len(e.calls) > 40 {
			panic(c02Runaway{append([]int(nil), e.calls[:8]...)})
		}
	}
	stepTry := func(e E) func(acc, i int) fp.Try[int] {
		return func(acc, i int) fp.Try[int] { guard(e, i); return tryRet(e, i, e.h(acc, i)) }
	}
	stepOpt := func(e E) func(acc, i int) fp.Option[int] {
		return func(acc, i int) fp.Option[int] { guard(e, i); return optionRet(e, i, e.h(acc, i)) }
	}
	stepErr := func(e E, sum *int) func(i int) error {
		return func(i int) error {
			guard(e, i)
			if e.failing(i) {
				return e.err(i)
			}
			*sum = e.h(*sum, i)
			return nil
		}
	}
	errRes := func(e E, err error, sum int) c02res {
		if err != nil {
			return c02res{tag: e.tagOfErr(err)}
		}
		return c02res{ok: true, val: sum}
	}
	want := func(e E) int { return e.h(e.h(e.h(e.h(0, 1), 2), 3), 4) }
	xs := func() []int { return []int{1, 2, 3, 4} }
	c02cases = append(c02cases,
		c02case{name: "seq.FoldTry/4", pos: four, want: want,
			run: func(e E) c02res { return tryRes(e, seq.FoldTry(fp.Seq[int](xs()), 0, stepTry(e))) }},
		c02case{name: "seq.FoldOption/4", pos: four, tags: none, want: want,
			run: func(e E) c02res { return optionRes(e, seq.FoldOption(fp.Seq[int](xs()), 0, stepOpt(e))) }},
		c02case{name: "seq.FoldError/4", pos: four, want: want,
			run: func(e E) c02res {
				sum := 0
				err := seq.FoldError(fp.Seq[int](xs()), stepErr(e, &sum))
				return errRes(e, err, sum)
			}},
		c02case{name: "list.FoldTry/4", pos: four, want: want,
			run: func(e E) c02res { return tryRes(e, list.FoldTry(list.Of(xs()...), 0, stepTry(e))) }},
		c02case{name: "list.FoldOption/4", pos: four, tags: none, want: want,
			run: func(e E) c02res { return optionRes(e, list.FoldOption(list.Of(xs()...), 0, stepOpt(e))) }},
		c02case{name: "list.FoldError/4", pos: four, want: want,
			run: func(e E) c02res {
				sum := 0
				err := list.FoldError(list.Of(xs()...), stepErr(e, &sum))
				return errRes(e, err, sum)
			}},
		c02case{name: "iterator.FoldTry/4", pos: four, want: want, srcN: 4,
			run: func(e E) c02res {
				return tryRes(e, iterator.FoldTry(c02src(e, 4), 0, stepTry(e)))
			}},
		c02case{name: "iterator.FoldOption/4", pos: four, tags: none, want: want, srcN: 4,
			run: func(e E) c02res {
				return optionRes(e, iterator.FoldOption(c02src(e, 4), 0, stepOpt(e)))
			}},
		c02case{name: "iterator.FoldError/4", pos: four, want: want, srcN: 4,
			run: func(e E) c02res {
				sum := 0
				err := iterator.FoldError(c02src(e, 4), stepErr(e, &sum))
				return errRes(e, err, sum)
			}},
	)
}
