package props

import (
	"fmt"

	"github.com/csgura/fp"
	"verif/harness/sim"
)

// Executors the simulator offers to the library. None of them ever drops or duplicates
// a runnable (that would break the fp.Executor contract); they only delay and reorder.

type inlineExec struct{ n *int }

func (e inlineExec) ExecuteUnsafe(r fp.Runnable) {
	*e.n++
	r.Run()
}

type spawnExec struct {
	run *sim.Run
	n   *int
}

func (e spawnExec) ExecuteUnsafe(r fp.Runnable) {
	*e.n++
	e.run.Go("uexec", func(t *sim.Task) { r.Run() })
}

// workerExec is a single worker task draining a queue in FIFO or LIFO order.
type workerExec struct {
	run   *sim.Run
	queue []fp.Runnable
	lifo  bool
	n     int
	task  *sim.Task
}

func newWorkerExec(run *sim.Run, lifo bool) *workerExec {
	w := &workerExec{run: run, lifo: lifo}
	name := "fifo-worker"
	if lifo {
		name = "lifo-worker"
	}
	w.task = run.Go(name, func(t *sim.Task) {
		for {
			t.WaitUntil("queue", func() bool { return len(w.queue) > 0 })
			var r fp.Runnable
			if w.lifo {
				r = w.queue[len(w.queue)-1]
				w.queue = w.queue[:len(w.queue)-1]
			} else {
				r = w.queue[0]
				w.queue = w.queue[1:]
			}
			r.Run()
		}
	})
	w.task.Daemon = true
	return w
}

func (w *workerExec) ExecuteUnsafe(r fp.Runnable) {
	w.n++
	w.queue = append(w.queue, r)
}

// execSet lazily creates the executors of one run.
type execSet struct {
	run    *sim.Run
	inlN   int
	spN    int
	fifo   *workerExec
	lifo   *workerExec
	counts [6]int
}

const (
	exDefault = iota // nil ctx: the library's goExecutor -> spawn hook -> new task
	exInline
	exSpawn
	exFifo
	exLifo
	exNil // an explicit nil executor: the library documents it as "use the default" (ctx[0] == nil)
	exKinds
)

var exNames = [...]string{"default", "inline", "spawn", "fifo", "lifo", "explicit-nil"}

// ctx returns the variadic executor argument for kind k.
func (s *execSet) ctx(k int) []fp.Executor {
	s.counts[k]++
	switch k {
	case exDefault:
		return nil
	case exNil:
		return []fp.Executor{nil}
	case exInline:
		return []fp.Executor{inlineExec{&s.inlN}}
	case exSpawn:
		return []fp.Executor{spawnExec{s.run, &s.spN}}
	case exFifo:
		if s.fifo == nil {
			s.fifo = newWorkerExec(s.run, false)
		}
		return []fp.Executor{s.fifo}
	case exLifo:
		if s.lifo == nil {
			s.lifo = newWorkerExec(s.run, true)
		}
		return []fp.Executor{s.lifo}
	}
	panic(fmt.Sprint("bad executor kind ", k))
}

// pending reports runnables accepted by a worker executor and not yet run.
func (s *execSet) pending() int {
	n := 0
	if s.fifo != nil {
		n += len(s.fifo.queue)
	}
	if s.lifo != nil {
		n += len(s.lifo.queue)
	}
	return n
}
