package props

import (
	"fmt"
	"sort"
	"strings"
	"time"

	"github.com/anishathalye/porcupine"
	"github.com/csgura/fp"
	"github.com/csgura/fp/mutable"
	"verif/harness/sim"
)

func init() {
	Register(&Prop{
		ID:    "C19",
		Level: "exploration",
		Rule: "one run = 2-4 client tasks issuing 3-6 operations each (Get, Size, Iterator, Updated, Removed, UpdatedWith, ComputeIf, ComputeIfAbsent; " +
			"a random subset of kinds enabled per run) on one mutable.CopyOnWriteMap over 3 keys with unique written values, interleaved by the seeded " +
			"scheduler at the entry of load()/copyOnWrite(), inside the lock, and - as the stalled-callback fault - inside user callbacks (also while the " +
			"library mutex is held, other tasks then block on it); the invoke/return history stamped with scheduler step numbers is checked with porcupine " +
			"against a sequential map model. non-trivial = at least two operations of different clients overlap in the recorded history; " +
			"distinct = hash of the recorded history (operations, outputs, stamps).",
		Assumptions: []string{
			"sync.Mutex and sync/atomic.Value of the Go runtime are trusted; interleaving is explored at the hook points and callback stalls, not inside a Go map copy",
			"porcupine's verdict Illegal is trusted; Unknown (timeout) is counted as inconclusive and never reported",
		},
		Real:     []string{"mutable.CopyOnWriteMap", "fp.UnsafeGoMap", "fp.Map wrapper"},
		Stub:     []string{"Go scheduler at hook points (seeded scheduler)", "user callbacks f / pred / remap (may stall)", "client threads"},
		Quick:    Budget{Runs: 80000, Wall: 45 * time.Second},
		Thorough: Budget{Runs: 3000000, Wall: 20 * time.Minute},
		Exec:     execC19,
	})
}

const c19Keys = 3

type c19State [c19Keys]int // 0 = absent

type c19In struct {
	kind  int
	key   int
	keys  []int // Removed
	val   int   // unique value written by this op
	mode  int   // UpdatedWith remap kind / ComputeIf predicate kind
	viaMp bool  // through the fp.Map wrapper
	fault bool  // injected fault: the user callback of this operation (remap / f) panics; the client recovers
}

type c19Out struct {
	present  bool
	val      int
	size     int
	snap     c19State
	saw      int // what remap observed (0 absent), -1 not called
	panicked string
	injected bool  // the operation ended with the injected callback panic: it must have had no effect
	retAt    int64 // != 0: the library call returned at this stamp although its result was read later (held iterator)
}

const (
	c19Get = iota
	c19Size
	c19Iter
	c19Updated
	c19Removed
	c19UpdatedWith
	c19ComputeIf
	c19ComputeIfAbsent
	c19NKinds
)

var c19KindNames = [...]string{"Get", "Size", "Iterator", "Updated", "Removed", "UpdatedWith", "ComputeIf", "ComputeIfAbsent"}

// remap modes
const (
	rmUpsert      = iota // any -> Some(val)
	rmDelete             // any -> None
	rmSetIfAbsent        // None -> Some(val), Some(x) -> Some(x)
	rmReplace            // Some(x) -> Some(val), None -> None
)

// predicate modes for ComputeIf: recompute when ...
const (
	pdNever  = iota // pred always false  (== ComputeIfAbsent)
	pdAlways        // pred always true   (always recompute)
	pdOdd           // recompute when the stored value is odd
)

func c19Pred(mode int, v int) bool {
	switch mode {
	case pdAlways:
		return true
	case pdOdd:
		return v%2 == 1
	}
	return false
}

func (in c19In) String() string {
	switch in.kind {
	case c19Get:
		return fmt.Sprintf("Get(%d)", in.key)
	case c19Size:
		return "Size()"
	case c19Iter:
		return "Iterator()"
	case c19Updated:
		return fmt.Sprintf("Updated(%d,%d)", in.key, in.val)
	case c19Removed:
		return fmt.Sprintf("Removed(%v)", in.keys)
	case c19UpdatedWith:
		return fmt.Sprintf("UpdatedWith(%d,%s %d)", in.key, [...]string{"upsert", "delete", "setIfAbsent", "replace"}[in.mode], in.val)
	case c19ComputeIf:
		return fmt.Sprintf("ComputeIf(%d,%s,->%d)", in.key, [...]string{"never", "always", "odd"}[in.mode], in.val)
	case c19ComputeIfAbsent:
		return fmt.Sprintf("ComputeIfAbsent(%d,->%d)", in.key, in.val)
	}
	return "?"
}

func (o c19Out) str(in c19In) string {
	if o.panicked != "" {
		return "PANIC " + o.panicked
	}
	if o.injected {
		if in.kind == c19UpdatedWith {
			return fmt.Sprintf("callback panicked (injected) after seeing %d", o.saw)
		}
		return "callback panicked (injected)"
	}
	switch in.kind {
	case c19Get:
		if !o.present {
			return "None"
		}
		return fmt.Sprintf("Some(%d)", o.val)
	case c19Size:
		return fmt.Sprint(o.size)
	case c19Iter:
		return fmt.Sprint(o.snap)
	case c19UpdatedWith:
		return fmt.Sprintf("remap saw %d", o.saw)
	case c19ComputeIf, c19ComputeIfAbsent:
		return fmt.Sprint(o.val)
	}
	return "ok"
}

// the sequential specification
var c19Model = porcupine.Model{
	Init: func() interface{} { return c19State{} },
	Step: func(state, input, output interface{}) (bool, interface{}) {
		st := state.(c19State)
		in := input.(c19In)
		out := output.(c19Out)
		switch in.kind {
		case c19Get:
			if st[in.key] == 0 {
				return !out.present, st
			}
			return out.present && out.val == st[in.key], st
		case c19Size:
			n := 0
			for _, v := range st {
				if v != 0 {
					n++
				}
			}
			return out.size == n, st
		case c19Iter:
			return out.snap == st, st
		case c19Updated:
			st[in.key] = in.val
			return true, st
		case c19Removed:
			for _, k := range in.keys {
				st[k] = 0
			}
			return true, st
		case c19UpdatedWith:
			if out.saw != st[in.key] {
				return false, st
			}
			if out.injected {
				return true, st // the callback crashed: the operation must not have changed anything
			}
			switch in.mode {
			case rmUpsert:
				st[in.key] = in.val
			case rmDelete:
				st[in.key] = 0
			case rmSetIfAbsent:
				if st[in.key] == 0 {
					st[in.key] = in.val
				}
			case rmReplace:
				if st[in.key] != 0 {
					st[in.key] = in.val
				}
			}
			return true, st
		case c19ComputeIf, c19ComputeIfAbsent:
			mode := in.mode
			if in.kind == c19ComputeIfAbsent {
				mode = pdNever
			}
			if out.injected {
				return true, st // f crashed before anything was stored
			}
			cur := st[in.key]
			if cur != 0 && !c19Pred(mode, cur) {
				return out.val == cur, st
			}
			st[in.key] = in.val
			return out.val == in.val, st
		}
		return false, st
	},
	Equal: func(a, b interface{}) bool { return a.(c19State) == b.(c19State) },
	DescribeOperation: func(input, output interface{}) string {
		return input.(c19In).String() + " -> " + output.(c19Out).str(input.(c19In))
	},
}

type c19InjectedPanic struct{}

var c19Injected = c19InjectedPanic{}

type c19Rec struct {
	client    int
	in        c19In
	out       c19Out
	call, ret int64
}

func execC19(r *sim.Run) {
	r.Case = "clients"
	r.OwnRange = true // Iterator() copies the snapshot entry by entry: every entry read is a scheduling point
	cow := &mutable.CopyOnWriteMap[int, int]{}
	wrapped := fp.Map[int, int]{Base: cow}

	// swarm: enabled operation kinds
	enabled := []int{}
	mask := r.Choose(1<<c19NKinds, "opmask")
	if mask == 0 {
		mask = 1<<c19ComputeIfAbsent | 1<<c19Get // simplest interesting configuration
	}
	for k := 0; k < c19NKinds; k++ {
		if mask&(1<<k) != 0 {
			enabled = append(enabled, k)
		}
	}
	nKeys := r.Range(1, c19Keys, "nKeys")
	stallPlan := r.Choose(3, "stall") // 0: callbacks never stall, 1: sometimes, 2: often
	// injected fault: user callbacks crash (panic) in the middle of an operation, also while the map's lock is held; the
	// client recovers. The operation must then have had no effect and must not leave the lock held.
	panicPlan := r.Choose(3, "callbackPanicPlan") // 0: never, 1: rarely, 2: sometimes
	if stallPlan > 0 {
		r.Case = "clients+stalls"
	}
	// optional sequential prefill
	// (the initial state is tracked here, not read back with Get: without a prefill the concurrent phase must
	// start on the untouched zero value, whose lazy initialisation in load() is part of what is explored)
	var init c19State
	if r.Choose(2, "prefill") == 1 {
		for k := 0; k < nKeys; k++ {
			if r.Choose(2, "prefillKey") == 1 {
				v := 7000 + 2*k + r.Choose(2, "prefillOdd")
				cow.Updated(k, v)
				init[k] = v
			}
		}
	}
	if init == (c19State{}) {
		r.Probe("concurrent-phase-starts-on-the-zero-value")
	}

	nClients := r.Range(2, 4, "nClients")
	var history []*c19Rec
	uniq := 0
	stamp := func() int64 { return int64(r.Steps) * 2 }

	type plannedOp struct {
		in     c19In
		stalls int
	}
	plans := make([][]plannedOp, nClients)
	for c := 0; c < nClients; c++ {
		nOps := r.Range(3, 6, "nOps")
		for i := 0; i < nOps; i++ {
			uniq++
			in := c19In{kind: enabled[r.Choose(len(enabled), "opkind")], key: r.Choose(nKeys, "key"), val: 1000*(c+1) + 2*uniq}
			switch in.kind {
			case c19Removed:
				n := r.Choose(3, "nRemoved")
				in.keys = []int{}
				for j := 0; j < n; j++ {
					in.keys = append(in.keys, r.Choose(c19Keys, "rkey"))
				}
			case c19UpdatedWith:
				in.mode = r.Choose(4, "remap")
				in.viaMp = r.Choose(2, "viaMap") == 1
			case c19ComputeIf:
				in.mode = r.Choose(3, "pred")
				in.val += r.Choose(2, "odd")
			case c19ComputeIfAbsent:
				in.val += r.Choose(2, "odd")
			case c19Get:
				in.viaMp = r.Choose(2, "viaMap") == 1
			case c19Iter:
				in.mode = r.Choose(2, "heldIterator")
			}
			if panicPlan > 0 && (in.kind == c19UpdatedWith || in.kind == c19ComputeIf || in.kind == c19ComputeIfAbsent) {
				in.fault = r.Bool(panicPlan, 6, "callbackPanics")
			}
			st := 0
			if stallPlan > 0 && r.Bool(stallPlan, 3, "stallHere") {
				st = r.Range(1, 2, "stallN")
			}
			plans[c] = append(plans[c], plannedOp{in, st})
		}
	}

	doOp := func(t *sim.Task, in c19In, stalls int) (out c19Out) {
		out.saw = -1
		stall := func(where string) {
			for i := 0; i < stalls; i++ {
				r.Fault("callback-stall")
				t.Yield("stall:" + where)
			}
		}
		defer func() {
			if e := recover(); e != nil {
				if e == any(c19Injected) {
					out.injected = true
					return
				}
				out.panicked = fmt.Sprint(e)
			}
		}()
		switch in.kind {
		case c19Get:
			var o fp.Option[int]
			if in.viaMp {
				o = wrapped.Get(in.key)
			} else {
				o = cow.Get(in.key)
			}
			out.present = o.IsDefined()
			if out.present {
				out.val = o.Get()
			}
		case c19Size:
			out.size = cow.Size()
		case c19Iter:
			it := cow.Iterator()
			if in.mode == 1 {
				// held iterator: Iterator() has returned - that is where the operation ends - but the snapshot it stands for is
				// read only after other clients have run; it must still show the map as it was at one instant of the call
				out.retAt = stamp() + 1
				r.Probe("iterator-held-across-other-operations")
				for i := 0; i < 1+in.val%2; i++ {
					t.Yield("held-iterator")
				}
			}
			for it.HasNext() {
				kv := it.Next()
				if kv.I1 < 0 || kv.I1 >= c19Keys {
					panic("iterator yielded an unknown key")
				}
				if out.snap[kv.I1] != 0 {
					panic("iterator yielded a key twice")
				}
				out.snap[kv.I1] = kv.I2
			}
		case c19Updated:
			cow.Updated(in.key, in.val)
		case c19Removed:
			cow.Removed(in.keys...)
		case c19UpdatedWith:
			remap := func(ov fp.Option[int]) fp.Option[int] {
				out.saw = 0
				if ov.IsDefined() {
					out.saw = ov.Get()
				}
				stall("remap")
				if in.fault {
					r.Fault("callback-panics")
					panic(c19Injected)
				}
				switch in.mode {
				case rmUpsert:
					return fp.Some(in.val)
				case rmDelete:
					return fp.None[int]()
				case rmSetIfAbsent:
					if ov.IsDefined() {
						return ov
					}
					return fp.Some(in.val)
				default:
					if ov.IsDefined() {
						return fp.Some(in.val)
					}
					return ov
				}
			}
			if in.viaMp {
				wrapped.UpdatedWith(in.key, remap)
			} else {
				cow.UpdatedWith(in.key, remap)
			}
		case c19ComputeIf:
			out.val = cow.ComputeIf(in.key, func(v int) bool {
				stall("pred")
				return c19Pred(in.mode, v)
			}, func() int {
				stall("f")
				if in.fault {
					r.Fault("callback-panics")
					panic(c19Injected)
				}
				return in.val
			})
		case c19ComputeIfAbsent:
			out.val = cow.ComputeIfAbsent(in.key, func() int {
				stall("f")
				if in.fault {
					r.Fault("callback-panics")
					panic(c19Injected)
				}
				return in.val
			})
		}
		return out
	}

	for c := 0; c < nClients; c++ {
		c := c
		r.Go(fmt.Sprintf("client%d", c), func(t *sim.Task) {
			for _, po := range plans[c] {
				t.Yield("op")
				rec := &c19Rec{client: c, in: po.in, call: stamp()}
				history = append(history, rec)
				rec.ret = -1
				rec.out = doOp(t, po.in, po.stalls)
				rec.ret = stamp() + 1
				if rec.out.retAt != 0 {
					rec.ret = rec.out.retAt
				}
				t.Logf("%s -> %s  [%d,%d]", po.in, rec.out.str(po.in), rec.call, rec.ret)
			}
		})
	}
	r.RunToQuiescence()
	if r.Failed() {
		return
	}
	if bl := r.BlockedTasks(); len(bl) > 0 {
		r.Violate("deadlock", "%d task(s) blocked on the map's lock at quiescence", len(bl))
		return
	}
	for _, t := range r.Unfinished() {
		r.Violate("stuck-task", "task %d:%s not finished (parked at %s)", t.ID, t.Name, t.ParkLabel())
		return
	}
	// final sequential reader
	r.Go("reader", func(t *sim.Task) {
		fin := []c19In{{kind: c19Size}, {kind: c19Iter}}
		for k := 0; k < c19Keys; k++ {
			fin = append(fin, c19In{kind: c19Get, key: k})
		}
		for _, in := range fin {
			t.Yield("op")
			rec := &c19Rec{client: nClients, in: in, call: stamp()}
			history = append(history, rec)
			rec.out = doOp(t, in, 0)
			rec.ret = stamp() + 1
			t.Logf("%s -> %s  [%d,%d]", in, rec.out.str(in), rec.call, rec.ret)
		}
	})
	r.RunToQuiescence()
	if r.Failed() {
		return
	}

	// oracle 1: no operation panics
	for _, h := range history {
		if h.out.panicked != "" {
			r.Violate("op-panic", "%s by client %d panicked: %s", h.in, h.client, h.out.panicked)
			return
		}
		if h.ret < 0 {
			r.Violate("op-not-returned", "%s by client %d never returned", h.in, h.client)
			return
		}
	}
	// oracle 2: linearizable w.r.t. the sequential map model
	ops := make([]porcupine.Operation, 0, len(history)+1)
	if init != (c19State{}) {
		// prefill as one atomic operation before everything else
		for k, v := range init {
			if v != 0 {
				ops = append(ops, porcupine.Operation{ClientId: nClients + 1, Input: c19In{kind: c19Updated, key: k, val: v}, Call: -10, Output: c19Out{}, Return: -9})
			}
		}
	}
	overlap := false
	for i, h := range history {
		ops = append(ops, porcupine.Operation{ClientId: h.client, Input: h.in, Call: h.call, Output: h.out, Return: h.ret})
		for _, g := range history[:i] {
			if g.client != h.client && g.call <= h.ret && h.call <= g.ret {
				overlap = true
			}
		}
		r.MixFingerprintS(h.in.String())
		r.MixFingerprintS(h.out.str(h.in))
		r.MixFingerprint(uint64(h.call)<<20 ^ uint64(h.ret))
	}
	if overlap {
		r.NonTrivial()
	}
	res := porcupine.CheckOperationsTimeout(c19Model, ops, 10*time.Second)
	switch res {
	case porcupine.Illegal:
		r.Violate("not-linearizable", "history of %d operations has no linearization:\n%s", len(history), c19Render(history))
		return
	case porcupine.Unknown:
		r.Probe("porcupine-inconclusive")
	default:
		r.Probe("porcupine-ok")
	}
	// oracle 3 (direct): ComputeIfAbsent is atomic per key when nothing else writes the key
	c19CIACheck(r, history, init)
}

func c19Render(h []*c19Rec) string {
	s := append([]*c19Rec(nil), h...)
	sort.SliceStable(s, func(i, j int) bool { return s[i].call < s[j].call })
	var sb strings.Builder
	for _, x := range s {
		fmt.Fprintf(&sb, "  client%d [%d,%d] %s -> %s\n", x.client, x.call, x.ret, x.in, x.out.str(x.in))
	}
	return sb.String()
}

func c19CIACheck(r *sim.Run, history []*c19Rec, init c19State) {
	for k := 0; k < c19Keys; k++ {
		only := true
		var vals []int
		final := -1
		for _, h := range history {
			touches := false
			switch h.in.kind {
			case c19Updated, c19UpdatedWith, c19ComputeIf:
				touches = h.in.key == k
			case c19Removed:
				for _, kk := range h.in.keys {
					if kk == k {
						touches = true
					}
				}
			case c19ComputeIfAbsent:
				if h.in.key == k && !h.out.injected { // a call whose callback crashed returned nothing
					vals = append(vals, h.out.val)
				}
			case c19Get:
				if h.in.key == k && h.client >= 0 {
					if h.out.present {
						final = h.out.val
					} else {
						final = 0
					}
				}
			}
			if touches {
				only = false
			}
		}
		if !only || len(vals) == 0 {
			continue
		}
		r.Probe("cia-only-key")
		for _, v := range vals {
			if v != vals[0] {
				r.Violate("computeifabsent-not-atomic", "ComputeIfAbsent calls on key %d (no other writer) returned different values %v", k, vals)
				return
			}
		}
		if init[k] != 0 && vals[0] != init[k] {
			r.Violate("computeifabsent-not-atomic", "ComputeIfAbsent on key %d returned %d although %d was already stored", k, vals[0], init[k])
			return
		}
		if final >= 0 && final != vals[0] {
			r.Violate("computeifabsent-not-atomic", "ComputeIfAbsent calls on key %d returned %d but the stored value is %d", k, vals[0], final)
			return
		}
	}
}
