package props

import (
	"fmt"
	"sort"
	"strings"
	"time"

	"github.com/csgura/fp"
	"github.com/csgura/fp/as"
	"github.com/csgura/fp/hash"
	"github.com/csgura/fp/hlist"
	"github.com/csgura/fp/immutable"
	"github.com/csgura/fp/iterator"
	"github.com/csgura/fp/lazy"
	"github.com/csgura/fp/list"
	"github.com/csgura/fp/seq"
	"verif/harness/sim"
)

func init() {
	Register(&Prop{
		ID:    "C03",
		Level: "exploration",
		Rule: "one run = a multi-version store: a pool of live fp.Map[int,int] / fp.Set[int] versions, each paired with a Go-map reference, started from every constructor " +
			"(immutable.Map/Set with and without entries, MapBuilder/SetBuilder, seq/iterator/list.ToMap/ToSet, the zero values), all under one hasher drawn per run as the injected fault " +
			"(identity, hash.Number, low-entropy k mod 4, constant, high-bits-only k<<27, collide on a seeded subset - all lawful); 1-3 simulated client tasks pick versions and apply " +
			"Updated/Removed(0..n keys, absent ones too)/UpdatedWith/Concat/Incl/Excl/Diff/Intersect/SubsetOf in grow and shrink phases over up to 72 keys (crossing the 8/16/32-way thresholds both ways), " +
			"new versions join the pool. After every event: structural invariants of the new trie (VerifCheck) and Get/Contains for the whole key universe, Size, IsEmpty, Iterator/Keys/Values/Foreach as multisets against the reference. " +
			"non-trivial = the census shows a bitmap, hash-array or collision node; distinct = hash of (hasher, history, schedule). Client interleaving is at operation granularity: persistent structures have no internal yield points.",
		Assumptions: []string{
			"hashers are lawful (Hash agrees with Eqv); keys are ints compared with ==",
			"no intra-operation interleaving exists in this code; the schedule only decides which client's next operation runs",
		},
		Real:     []string{"immutable package (HAMT, builders, set)", "fp.Map / fp.Set wrappers incl. zero values", "seq/iterator/list ToMap/ToSet"},
		Stub:     []string{"fp.Hashable (adversarial but lawful hashers)", "clients and their operation order (seeded scheduler)"},
		Quick:    Budget{Runs: 48000, Wall: 50 * time.Second},
		Thorough: Budget{Runs: 1500000, Wall: 25 * time.Minute},
		Exec:     execC03,
	})
}

// ---------------------------------------------------------------- hashers

type fnHasher struct {
	name string
	f    func(int) uint32
	// canon != nil: keys are equivalent (Eqv) when their canonical representatives are equal - an equivalence
	// coarser than ==, as with case-insensitive strings; Hash must then depend on the representative only
	canon func(int) int
	// eqv != nil: the library's own derived equality (hashers built with package hash's combinators)
	eqv func(a, b int) bool
}

func (h fnHasher) Eqv(a, b int) bool {
	if h.eqv != nil {
		return h.eqv(a, b)
	}
	if h.canon != nil {
		return h.canon(a) == h.canon(b)
	}
	return a == b
}
func (h fnHasher) Hash(a int) uint32 { return h.f(a) }

func c03Hasher(r *sim.Run) fp.Hashable[int] {
	switch r.Choose(12, "hasher") {
	case 11:
		// hashers derived with the combinators of package hash over an injective image of the key (so Eqv is still ==,
		// but both Hash and Eqv are the library's own derived instances, with their natural collisions)
		r.Fault("hasher:derived-instance")
		num := hash.Number[int]()
		var d fp.Hashable[int]
		var name string
		switch r.Choose(7, "derived") {
		case 0:
			d, name = hash.ContraMap(hash.Seq(num), func(k int) fp.Seq[int] { return fp.Seq[int]{k % 7, k / 7} }), "ContraMap(hash.Seq, k -> [k%7, k/7])"
		case 1:
			d, name = hash.ContraMap(hash.Slice(num), func(k int) []int { return []int{k / 31, k % 31} }), "ContraMap(hash.Slice, k -> [k/31, k%31])"
		case 2:
			d, name = hash.ContraMap(hash.Option(num), func(k int) fp.Option[int] {
				if k == 0 {
					return fp.None[int]()
				}
				return fp.Some(k)
			}), "ContraMap(hash.Option, 0 -> None, k -> Some(k))"
		case 3:
			d, name = hash.ContraMap(hash.Tuple2(num, num), func(k int) fp.Tuple2[int, int] { return as.Tuple2(k%5, k/5) }), "ContraMap(hash.Tuple2, k -> (k%5, k/5))"
		case 4:
			d, name = hash.ContraMap(hash.Tuple1(num), func(k int) fp.Tuple1[int] { return as.Tuple1(k) }), "ContraMap(hash.Tuple1)"
		case 5:
			r.MuteMemo = true // hash.Ptr reaches a lazy.Eval on every Hash and Eqv
			cells := map[int]*int{}
			d, name = hash.ContraMap(hash.Ptr(lazy.Done(num)), func(k int) *int {
				if k == 0 {
					return nil
				}
				if p, ok := cells[k]; ok && k%2 == 0 {
					return p // even keys: always the same pointer; odd keys: a fresh pointer to an equal number each time
				}
				v := k
				cells[k] = &v
				return &v
			}), "ContraMap(hash.Ptr, 0 -> nil, k -> &k)"
		default:
			d, name = hash.ContraMap(hash.HCons(num, hash.HCons(num, hash.HNil)), func(k int) hlist.Cons[int, hlist.Cons[int, hlist.Nil]] {
				return hlist.Concat(k%3, hlist.Concat(k/3, hlist.Empty()))
			}), "ContraMap(hash.HCons, k -> k%3 :: k/3 :: HNil)"
		}
		return fnHasher{name: name, f: d.Hash, eqv: d.Eqv}
	case 9, 10:
		// Eqv coarser than ==: k and k+e are the same key. The reference is keyed by the representative k%e; which of
		// the equivalent keys the map hands back from Iterator/Keys is not specified and is compared modulo Eqv.
		e := []int{5, 24, 48}[r.Choose(3, "eqvMod")]
		spread := r.Choose(2, "eqvSpread") == 1
		r.Fault("hasher:coarse-eqv")
		canon := func(k int) int {
			if k < 0 {
				return k
			}
			return k % e
		}
		return fnHasher{name: fmt.Sprintf("Eqv(a,b) = a%%%d==b%%%d, spread=%v", e, e, spread), f: func(k int) uint32 {
			c := uint32(canon(k))
			if spread {
				return c * 0x9E3779B1
			}
			return c % 7
		}, canon: canon}
	case 7, 8:
		// digit hashers: the key's mixed-radix digits become the 5-bit fragments of successive trie levels, so that a
		// chosen level (not only the root) gets few or many children: k%a at the root, (k/a)%b one level down, the
		// rest two levels down; fragments >= 32 spill into the next level, values of b that do not divide evenly collide
		a := []int{1, 2, 3, 4}[r.Choose(4, "digitA")]
		b := []int{2, 3, 17, 20, 32}[r.Choose(5, "digitB")]
		lossy := r.Choose(3, "digitLossy") == 0 // drop the top digit: full 32-bit collisions below the second level
		r.Fault("hasher:digits")
		return fnHasher{name: fmt.Sprintf("digits k%%%d | (k/%d)%%%d<<5 | rest<<10 (lossy=%v)", a, a, b, lossy), f: func(k int) uint32 {
			h := uint32(k%a) | uint32((k/a)%b)<<5
			if !lossy {
				h |= uint32(k/(a*b)) << 10
			}
			return h
		}}
	case 0:
		return fnHasher{name: "identity", f: func(k int) uint32 { return uint32(k) }}
	case 1:
		n := hash.Number[int]()
		return fnHasher{name: "hash.Number", f: n.Hash}
	case 2:
		r.Fault("hasher:low-entropy")
		return fnHasher{name: "k mod 4", f: func(k int) uint32 { return uint32(k % 4) }}
	case 3:
		r.Fault("hasher:constant")
		return fnHasher{name: "constant", f: func(int) uint32 { return 0xdeadbeef }}
	case 4:
		r.Fault("hasher:high-bits-only")
		return fnHasher{name: "k<<27", f: func(k int) uint32 { return uint32(k) << 27 }}
	case 5:
		r.Fault("hasher:collide-subset")
		m := 2 + r.Choose(5, "collideMod")
		return fnHasher{name: fmt.Sprintf("collide k%%%d==0", m), f: func(k int) uint32 {
			if k%m == 0 {
				return 99
			}
			return uint32(k)
		}}
	default:
		r.Fault("hasher:two-level")
		return fnHasher{name: "(k%3)<<5 | k%2", f: func(k int) uint32 { return uint32(k%3)<<5 | uint32(k%2) }}
	}
}

// ---------------------------------------------------------------- store

type c03ver struct {
	id    int
	isSet bool
	m     fp.Map[int, int]
	s     fp.Set[int]
	model map[int]int // set: value 1
	desc  string
	cen   immutable.VerifCensus
}

type c03store struct {
	r        *sim.Run
	h        fp.Hashable[int]
	universe int
	pool     []*c03ver
	events   int
	log      []string
}

// c maps a key to the representative the reference is keyed by (identity unless the hasher's Eqv is coarser than ==).
func (st *c03store) c(k int) int {
	if h, ok := st.h.(fnHasher); ok && h.canon != nil {
		return h.canon(k)
	}
	return k
}

func cloneModel(m map[int]int) map[int]int {
	o := make(map[int]int, len(m))
	for k, v := range m {
		o[k] = v
	}
	return o
}

func (st *c03store) add(v *c03ver) *c03ver {
	v.id = len(st.pool)
	st.pool = append(st.pool, v)
	return v
}

func sortedPairs(m map[int]int) []int {
	out := make([]int, 0, len(m))
	for k, v := range m {
		out = append(out, k*100000+v)
	}
	sort.Ints(out)
	return out
}

// check compares one version with its reference through the public API and the structural walker.
func (st *c03store) check(v *c03ver, when string) bool {
	r := st.r
	bad := func(class, format string, a ...any) bool {
		r.Violate(class, "%s (version %d: %s; hasher %s; %s)", fmt.Sprintf(format, a...), v.id, v.desc, st.h.(fnHasher).name, when)
		return false
	}
	defer func() {
		if e := recover(); e != nil {
			r.Violate("map-panic", "inspecting version %d (%s) panicked: %v", v.id, v.desc, e)
		}
	}()
	var cen immutable.VerifCensus
	var err error
	if v.isSet {
		cen, err = immutable.VerifCheckSet(fp.VerifSetMinimal(v.s))
	} else {
		cen, err = immutable.VerifCheck(v.m.Base)
	}
	if err != nil {
		return bad("trie-invariant", "structural invariant broken: %v", err)
	}
	v.cen = cen
	if cen.Bitmap+cen.HashArray+cen.Collision > 0 {
		r.NonTrivial()
	}
	size, empty := 0, false
	if v.isSet {
		size, empty = v.s.Size(), v.s.IsEmpty()
		if v.s.NonEmpty() == empty {
			return bad("size-mismatch", "IsEmpty and NonEmpty agree")
		}
	} else {
		size, empty = v.m.Size(), v.m.IsEmpty()
		if v.m.NonEmpty() == empty {
			return bad("size-mismatch", "IsEmpty and NonEmpty agree")
		}
	}
	if size != len(v.model) {
		return bad("size-mismatch", "Size()=%d, reference has %d distinct keys", size, len(v.model))
	}
	if empty != (len(v.model) == 0) {
		return bad("size-mismatch", "IsEmpty()=%v, reference has %d keys", empty, len(v.model))
	}
	for k := -1; k <= st.universe; k++ {
		want, in := v.model[st.c(k)]
		if v.isSet {
			if v.s.Contains(k) != in {
				return bad("lookup-mismatch", "Contains(%d)=%v, reference says %v", k, !in, in)
			}
			continue
		}
		got := v.m.Get(k)
		if got.IsDefined() != in || (in && got.Get() != want) {
			return bad("lookup-mismatch", "Get(%d)=%v, reference: present=%v value=%d", k, got, in, want)
		}
		if v.m.Contains(k) != in {
			return bad("lookup-mismatch", "Contains(%d)=%v, reference says %v", k, !in, in)
		}
	}
	// iteration: every entry exactly once with its latest value
	var got []int
	if v.isSet {
		it := v.s.Iterator()
		for it.HasNext() {
			got = append(got, st.c(it.Next())*100000+1)
		}
		n := 0
		v.s.Foreach(func(int) { n++ })
		if n != len(v.model) {
			return bad("iteration-mismatch", "Foreach visited %d elements, reference has %d", n, len(v.model))
		}
	} else {
		it := v.m.Iterator()
		for it.HasNext() {
			t := it.Next()
			got = append(got, st.c(t.I1)*100000+t.I2)
		}
		var ks, vs, wk, wv []int
		for it := v.m.Keys(); it.HasNext(); {
			ks = append(ks, st.c(it.Next()))
		}
		for it := v.m.Values(); it.HasNext(); {
			vs = append(vs, it.Next())
		}
		for k, x := range v.model {
			wk = append(wk, k)
			wv = append(wv, x)
		}
		sort.Ints(ks)
		sort.Ints(vs)
		sort.Ints(wk)
		sort.Ints(wv)
		if fmt.Sprint(ks) != fmt.Sprint(wk) || fmt.Sprint(vs) != fmt.Sprint(wv) {
			return bad("iteration-mismatch", "Keys()/Values() yield %v / %v, reference %v / %v", ks, vs, wk, wv)
		}
		n := 0
		v.m.Foreach(func(fp.Tuple2[int, int]) { n++ })
		if n != len(v.model) {
			return bad("iteration-mismatch", "Foreach visited %d entries, reference has %d", n, len(v.model))
		}
	}
	sort.Ints(got)
	if want := sortedPairs(v.model); fmt.Sprint(got) != fmt.Sprint(want) {
		return bad("iteration-mismatch", "Iterator yields %v (key*100000+value, sorted), reference %v", got, want)
	}
	// the same through a loop bounded by Size(): Next() is called Size() times with a HasNext only before every
	// second one, then the iterator must say it is exhausted
	var got2 []int
	nextN := func(hasNext func() bool, next func() int) string {
		for i := 0; i < size; i++ {
			if i%2 == 1 && !hasNext() {
				return fmt.Sprintf("HasNext is false after %d of %d entries", i, size)
			}
			got2 = append(got2, next())
		}
		if hasNext() {
			return fmt.Sprintf("HasNext is still true after Size()=%d calls of Next", size)
		}
		return ""
	}
	var msg string
	func() {
		defer func() {
			if e := recover(); e != nil {
				msg = fmt.Sprintf("Next panicked after %d of %d entries: %v", len(got2), size, e)
			}
		}()
		if v.isSet {
			it := v.s.Iterator()
			msg = nextN(it.HasNext, func() int { return st.c(it.Next())*100000 + 1 })
		} else {
			it := v.m.Iterator()
			msg = nextN(it.HasNext, func() int { t := it.Next(); return st.c(t.I1)*100000 + t.I2 })
		}
	}()
	if msg != "" {
		return bad("iteration-mismatch", "iterating with a loop bounded by Size(): %s", msg)
	}
	sort.Ints(got2)
	if want := sortedPairs(v.model); fmt.Sprint(got2) != fmt.Sprint(want) {
		return bad("iteration-mismatch", "Iterator read with a loop bounded by Size() yields %v (key*100000+value, sorted), reference %v", got2, want)
	}
	return true
}

func (st *c03store) probes(old, nw *c03ver) {
	r := st.r
	c := nw.cen
	if c.Bitmap > 0 {
		r.Probe("bitmap-node")
	}
	if c.HashArray > 0 {
		r.Probe("hash-array-node")
	}
	if c.Collision > 0 {
		r.Probe("collision-node")
	}
	if c.MaxDepth >= 3 {
		r.Probe("depth>=3")
	}
	if c.BitmapDeep > 0 {
		r.Probe("bitmap-node-below-root")
	}
	if c.HashArrayDeep > 0 {
		r.Probe("hash-array-node-below-root")
	}
	if c.CollisionDeep > 0 {
		r.Probe("collision-node-below-second-level")
	}
	if c.Foreign {
		r.Probe("non-trie-base(zero-value route)")
	}
	if old == nil {
		return
	}
	o := old.cen
	if o.Array > 0 && c.Array == 0 && c.Entries > 0 {
		r.Probe("array->branch")
	}
	if o.HashArray < c.HashArray {
		r.Probe("bitmap->hash-array")
	}
	if o.HashArray > c.HashArray {
		r.Probe("hash-array->bitmap")
	}
	if o.HashArrayDeep < c.HashArrayDeep {
		r.Probe("bitmap->hash-array below root")
	}
	if o.HashArrayDeep > c.HashArrayDeep {
		r.Probe("hash-array->bitmap below root")
	}
	if o.Bitmap > c.Bitmap && o.HashArrayDeep > 0 && c.HashArrayDeep > 0 {
		r.Probe("bitmap node removed above a hash-array node")
	}
	if o.Collision < c.Collision {
		r.Probe("collision-created")
	}
	if o.Collision > c.Collision {
		r.Probe("collision->value")
	}
}

func tuplesOf(m map[int]int, order []int) []fp.Tuple2[int, int] {
	out := make([]fp.Tuple2[int, int], 0, len(order))
	for _, k := range order {
		out = append(out, as.Tuple2(k, m[k]))
	}
	return out
}

// construct draws a constructor and initial content.
func (st *c03store) construct(isSet bool) *c03ver {
	r := st.r
	n := r.ChooseWith(41, "initN", func(g *sim.Rng) int {
		if g.Intn(3) == 0 {
			return g.Intn(41)
		}
		return g.Intn(6)
	})
	model := map[int]int{}
	var order []int // insertion order incl. duplicates (later wins)
	var entries [][2]int
	for i := 0; i < n; i++ {
		k := r.Choose(st.universe, "k")
		v := 1000 + i
		if isSet {
			v = 1
		}
		entries = append(entries, [2]int{k, v})
		if _, ok := model[st.c(k)]; !ok {
			order = append(order, k)
		}
		model[st.c(k)] = v
	}
	ts := make([]fp.Tuple2[int, int], len(entries))
	ks := make([]int, len(entries))
	for i, e := range entries {
		ts[i] = as.Tuple2(e[0], e[1])
		ks[i] = e[0]
	}
	v := &c03ver{isSet: isSet, model: model}
	c := r.Choose(6, "ctor")
	if h, ok := st.h.(fnHasher); ok && h.canon != nil && c == 5 {
		// the zero value has no Hashable (it falls back to Go's == on the keys, by construction): it is outside
		// "for every Hashable" when the run's Eqv is coarser than ==; start from an empty collection that has the hasher
		c, entries, ts, ks = 0, nil, nil, nil
		v.model = map[int]int{}
	}
	if isSet {
		switch c {
		case 0:
			v.s, v.desc = immutable.Set(st.h, ks...), "immutable.Set"
		case 1:
			b := immutable.SetBuilder(st.h)
			for _, k := range ks {
				b.Add(k)
			}
			v.s, v.desc = b.Build(), "SetBuilder"
		case 2:
			v.s, v.desc = seq.ToSet(fp.Seq[int](ks), st.h), "seq.ToSet"
		case 3:
			v.s, v.desc = iterator.ToSet(iterator.FromSlice(ks), st.h), "iterator.ToSet"
		case 4:
			v.s, v.desc = list.ToSet(list.Of(ks...), st.h), "list.ToSet"
		default:
			v.s, v.desc, v.model = fp.Set[int]{}, "zero Set", map[int]int{}
		}
	} else {
		switch c {
		case 0:
			v.m, v.desc = immutable.Map(st.h, ts...), "immutable.Map"
		case 1:
			b := immutable.MapBuilder[int, int](st.h)
			for _, t := range ts {
				b.Add(t.I1, t.I2)
			}
			v.m, v.desc = b.Build(), "MapBuilder"
		case 2:
			v.m, v.desc = seq.ToMap(fp.Seq[fp.Tuple2[int, int]](ts), st.h), "seq.ToMap"
		case 3:
			v.m, v.desc = iterator.ToMap(iterator.FromSlice(ts), st.h), "iterator.ToMap"
		case 4:
			v.m, v.desc = list.ToMap(list.Of(ts...), st.h), "list.ToMap"
		default:
			v.m, v.desc, v.model = fp.Map[int, int]{}, "zero Map", map[int]int{}
		}
	}
	v.desc += fmt.Sprintf("(%d entries)", len(v.model))
	return v
}

type c03op struct {
	kind  int
	a, b  int // version selectors
	k     int
	ks    []int
	val   int
	mode  int
	isSet bool
}

const (
	moUpdated = iota
	moRemoved
	moUpdatedWith
	moConcatVer
	moConcatIter
	moRead
	moNMap
)
const (
	soIncl = iota
	soExcl
	soConcat
	soDiff
	soIntersect
	soSubsetOf
	soRead
	soNSet
)

func (st *c03store) pick(sel int, isSet bool) *c03ver {
	var c []*c03ver
	for _, v := range st.pool {
		if v.isSet == isSet {
			c = append(c, v)
		}
	}
	if len(c) == 0 {
		return nil
	}
	// bias to recent versions so that histories get long, but keep old ones in play
	if sel%3 != 0 {
		return c[len(c)-1-(sel/3)%min(len(c), 3)]
	}
	return c[(sel/3)%len(c)]
}

func (st *c03store) apply(op c03op, client int) bool {
	r := st.r
	st.events++
	src := st.pick(op.a, op.isSet)
	if src == nil {
		return true
	}
	nv := &c03ver{isSet: op.isSet, model: cloneModel(src.model)}
	var desc string
	ok := true
	func() {
		defer func() {
			if e := recover(); e != nil {
				r.Violate("map-panic", "client %d: %s on version %d (%s) panicked: %v", client, desc, src.id, src.desc, e)
				ok = false
			}
		}()
		if !op.isSet {
			switch op.kind {
			case moUpdated:
				desc = fmt.Sprintf("Updated(%d,%d)", op.k, op.val)
				nv.m = src.m.Updated(op.k, op.val)
				nv.model[st.c(op.k)] = op.val
			case moRemoved:
				desc = fmt.Sprintf("Removed(%v)", op.ks)
				nv.m = src.m.Removed(op.ks...)
				for _, k := range op.ks {
					delete(nv.model, st.c(k))
				}
			case moUpdatedWith:
				desc = fmt.Sprintf("UpdatedWith(%d,mode %d)", op.k, op.mode)
				var saw fp.Option[int]
				calls := 0
				nv.m = src.m.UpdatedWith(op.k, func(o fp.Option[int]) fp.Option[int] {
					saw = o
					calls++
					switch op.mode {
					case 0:
						return fp.Some(op.val)
					case 1:
						return fp.None[int]()
					case 2:
						if o.IsDefined() {
							return fp.Some(o.Get() + 1)
						}
						return o
					default:
						if o.IsDefined() {
							return o
						}
						return fp.Some(op.val)
					}
				})
				old, in := src.model[st.c(op.k)]
				if calls != 1 || saw.IsDefined() != in || (in && saw.Get() != old) {
					r.Violate("lookup-mismatch", "UpdatedWith(%d) on version %d: remap called %d time(s) with %v, reference present=%v value=%d", op.k, src.id, calls, saw, in, old)
					ok = false
					return
				}
				switch op.mode {
				case 0:
					nv.model[st.c(op.k)] = op.val
				case 1:
					delete(nv.model, st.c(op.k))
				case 2:
					if in {
						nv.model[st.c(op.k)] = old + 1
					}
				default:
					if !in {
						nv.model[st.c(op.k)] = op.val
					}
				}
			case moConcatVer:
				other := st.pick(op.b, false)
				desc = fmt.Sprintf("Concat(version %d)", other.id)
				nv.m = src.m.Concat(other.m)
				for k, v := range other.model {
					nv.model[k] = v
				}
			case moConcatIter:
				desc = fmt.Sprintf("Concat(seq %v)", op.ks)
				ts := fp.Seq[fp.Tuple2[int, int]]{}
				for i, k := range op.ks {
					ts = append(ts, as.Tuple2(k, op.val+i))
					nv.model[st.c(k)] = op.val + i
				}
				nv.m = src.m.Concat(seqIterable[fp.Tuple2[int, int]](ts))
			default:
				desc = "read"
				nv = nil
			}
		} else {
			switch op.kind {
			case soIncl:
				desc = fmt.Sprintf("Incl(%d)", op.k)
				nv.s = src.s.Incl(op.k)
				nv.model[st.c(op.k)] = 1
			case soExcl:
				desc = fmt.Sprintf("Excl(%d)", op.k)
				nv.s = src.s.Excl(op.k)
				delete(nv.model, st.c(op.k))
			case soConcat:
				desc = fmt.Sprintf("Concat(seq %v)", op.ks)
				nv.s = src.s.Concat(seqIterable[int](op.ks))
				for _, k := range op.ks {
					nv.model[st.c(k)] = 1
				}
			case soDiff, soIntersect:
				other := st.pick(op.b, true)
				name := "Diff"
				if op.kind == soIntersect {
					name = "Intersect"
				}
				desc = fmt.Sprintf("%s(version %d)", name, other.id)
				if op.kind == soDiff {
					nv.s = src.s.Diff(other.s)
				} else {
					nv.s = src.s.Intersect(other.s)
				}
				for k := range src.model {
					_, in := other.model[k]
					if in == (op.kind == soDiff) {
						delete(nv.model, k)
					}
				}
			case soSubsetOf:
				other := st.pick(op.b, true)
				desc = fmt.Sprintf("SubsetOf(version %d)", other.id)
				got := src.s.SubsetOf(other.s)
				want := true
				for k := range src.model {
					if _, in := other.model[k]; !in {
						want = false
					}
				}
				if got != want {
					r.Violate("lookup-mismatch", "version %d SubsetOf version %d = %v, reference says %v", src.id, other.id, got, want)
					ok = false
				}
				nv = nil
			default:
				desc = "read"
				nv = nil
			}
		}
	}()
	if !ok {
		return false
	}
	if r.LogOn {
		r.Logf("  event %d client %d: version %d . %s", st.events, client, src.id, desc)
	}
	r.MixFingerprintS(desc)
	r.MixFingerprint(uint64(src.id))
	if nv == nil {
		return st.check(src, "re-read after "+desc)
	}
	nv.desc = fmt.Sprintf("v%d.%s", src.id, desc)
	st.add(nv)
	if !st.check(nv, fmt.Sprintf("after event %d", st.events)) {
		return false
	}
	st.probes(src, nv)
	// the source version must be unaffected (also C04's business; cheap here)
	if !st.check(src, fmt.Sprintf("source version re-checked after event %d (%s)", st.events, desc)) {
		return false
	}
	if st.events%16 == 0 {
		// periodic re-check of a stride of live versions (all of them at the end of the run)
		stride := 1 + len(st.pool)/12
		for i := st.events / 16 % stride; i < len(st.pool); i += stride {
			if !st.check(st.pool[i], fmt.Sprintf("periodic re-check after event %d (%s)", st.events, desc)) {
				return false
			}
		}
	}
	return true
}

type seqIterable[T any] []T

func (s seqIterable[T]) Iterator() fp.Iterator[T] { return fp.IteratorOfSeq([]T(s)) }

func (st *c03store) drawOp(isSet bool, phase int) c03op {
	r := st.r
	op := c03op{isSet: isSet, a: r.Choose(30, "verA"), b: r.Choose(30, "verB"), k: r.Choose(st.universe, "k"), val: 2000 + r.Choose(1000, "val")}
	grow := phase == 0
	if !isSet {
		op.kind = r.ChooseWith(moNMap, "mapOp", func(g *sim.Rng) int {
			x := g.Intn(10)
			switch {
			case x < 5 && grow:
				return moUpdated
			case x < 5:
				return moRemoved
			case x < 6:
				return moUpdated
			case x < 7:
				return moRemoved
			case x < 8:
				return moUpdatedWith
			}
			return moConcatVer + g.Intn(3)
		})
		op.mode = r.Choose(4, "remap")
		if op.kind == moRemoved || op.kind == moConcatIter {
			op.ks = st.drawKeys(r, 4)
		}
	} else {
		op.kind = r.ChooseWith(soNSet, "setOp", func(g *sim.Rng) int {
			x := g.Intn(10)
			switch {
			case x < 5 && grow:
				return soIncl
			case x < 5:
				return soExcl
			case x < 6:
				return soIncl
			case x < 7:
				return soExcl
			}
			return soConcat + g.Intn(5)
		})
		if op.kind == soConcat {
			op.ks = st.drawKeys(r, 5)
		}
	}
	return op
}

// drawKeys draws the key list of a multi-key operation: a few independent keys, or - one time in four - a whole
// residue class of the key universe (or its complement). Whole classes fill and empty entire sub-tries at once, which
// independent keys practically never do: a branch node loses all children but one, a level shrinks below a threshold
// while its sibling stays wide.
func (st *c03store) drawKeys(r *sim.Run, maxN int) []int {
	ks := []int{}
	if r.ChooseWith(4, "keyClass", func(g *sim.Rng) int {
		if g.Intn(4) == 0 {
			return 1 + g.Intn(3)
		}
		return 0
	}) == 0 {
		n := r.Choose(maxN, "nKeys")
		for i := 0; i < n; i++ {
			ks = append(ks, r.Choose(st.universe, "k"))
		}
		return ks
	}
	m := []int{2, 3, 4, 8, 16, 32}[r.Choose(6, "classMod")]
	c := r.Choose(m, "classRes")
	complement := r.Choose(3, "classComplement") == 0
	for k := 0; k < st.universe; k++ {
		if (k%m == c) != complement {
			ks = append(ks, k)
		}
	}
	r.Probe("whole-residue-class-operations")
	return ks
}

// c03Window: a scripted history around the width thresholds of ONE trie node, at a seeded POSITION of its 32 slots. With
// the identity hasher the key decides the slot (level 0: key = slot; level 1: key = slot*32 + c, all keys below one
// root slot). The node is grown to a window of L consecutive slots (wrapping) plus a few extra slots, then the extras
// are removed one by one (so the node sits at exactly L children, all inside the window - e.g. 16 children in slots
// 16..31 only), then the window itself is emptied key by key. Every step is an event with the full set of oracles.
func c03Window(r *sim.Run, st *c03store) {
	r.Case = "store"
	st.h = fnHasher{name: "identity", f: func(k int) uint32 { return uint32(k) }}
	level := r.Choose(2, "windowLevel")
	st.universe = 40
	if level == 1 {
		st.universe = 1024
	}
	L := []int{7, 8, 9, 15, 16, 17, 24, 31}[r.Choose(8, "windowLen")]
	a := r.Choose(32, "windowStart")
	nExtra := min(32-L, 1+r.Choose(4, "windowExtra"))
	c := r.Choose(32, "windowSub")
	key := func(slot int) int {
		if level == 1 {
			return slot*32 + c
		}
		return slot
	}
	isSet := r.Choose(3, "windowSet") == 0
	r.Fault("slot-window-history")
	r.MixFingerprintS(fmt.Sprintf("window level %d start %d len %d extra %d set %v", level, a, L, nExtra, isSet))
	r.Logf("slot-window history: level %d, slots %d..+%d (wrapping), %d extra slot(s), set=%v", level, a, L, nExtra, isSet)
	v := &c03ver{isSet: isSet, model: map[int]int{}, desc: "empty (slot-window history)"}
	if isSet {
		v.s = immutable.Set[int](st.h)
	} else {
		v.m = immutable.Map[int, int](st.h)
	}
	st.add(v)
	if !st.check(v, "after construction") {
		return
	}
	var ops []c03op
	ins := func(k int) {
		if isSet {
			ops = append(ops, c03op{kind: soIncl, isSet: true, a: 1, k: k})
		} else {
			ops = append(ops, c03op{kind: moUpdated, a: 1, k: k, val: 3000 + k})
		}
	}
	del := func(k int) {
		if isSet {
			ops = append(ops, c03op{kind: soExcl, isSet: true, a: 1, k: k})
		} else {
			ops = append(ops, c03op{kind: moRemoved, a: 1, ks: []int{k}})
		}
	}
	// grow: window and extras interleaved from a seeded rotation
	rot := r.Choose(L+nExtra, "windowRot")
	all := make([]int, 0, L+nExtra)
	for i := 0; i < L+nExtra; i++ {
		all = append(all, (a+i)%32) // the first L are the window, the rest the extras
	}
	for i := range all {
		ins(key(all[(i+rot)%len(all)]))
	}
	for i := L; i < L+nExtra; i++ {
		del(key(all[i]))
	}
	back := r.Choose(2, "windowBackwards") == 1
	for i := 0; i < L; i++ {
		j := i
		if back {
			j = L - 1 - i
		}
		del(key(all[j]))
	}
	r.Go("client0", func(t *sim.Task) {
		for _, op := range ops {
			t.Yield("op")
			if !st.apply(op, 0) {
				return
			}
		}
	})
	r.RunToQuiescence()
	if r.Failed() {
		return
	}
	for _, t := range r.Unfinished() {
		r.Violate("stuck-task", "task %d:%s not finished", t.ID, t.Name)
		return
	}
	for _, v := range st.pool {
		if !st.check(v, "final re-check of all live versions") {
			return
		}
	}
	r.ProbeN("events", st.events)
}

func execC03(r *sim.Run) {
	r.Case = "store"
	st := &c03store{r: r}
	st.h = c03Hasher(r)
	st.universe = []int{12, 40, 72, 96}[r.Choose(4, "universe")]
	if r.Bool(1, 8, "slotWindowHistory") {
		c03Window(r, st)
		return
	}
	r.MixFingerprintS(st.h.(fnHasher).name)
	r.Logf("hasher %s, universe %d", st.h.(fnHasher).name, st.universe)
	// initial versions: at least one map and one set, from seeded constructors
	nInit := r.Range(2, 4, "nInit")
	for i := 0; i < nInit; i++ {
		isSet := i%2 == 1
		var v *c03ver
		func() {
			defer func() {
				if e := recover(); e != nil {
					r.Violate("map-panic", "constructor panicked: %v", e)
				}
			}()
			v = st.construct(isSet)
		}()
		if r.Failed() {
			return
		}
		st.add(v)
		r.MixFingerprintS(v.desc)
		r.Logf("version %d: %s", v.id, v.desc)
		if !st.check(v, "after construction") {
			return
		}
		st.probes(nil, v)
	}
	nClients := r.Range(1, 3, "nClients")
	total := r.ChooseWith(6, "length", func(g *sim.Rng) int { return g.Intn(6) })
	nOps := []int{6, 20, 40, 80, 160, 300}[total]
	for c := 0; c < nClients; c++ {
		c := c
		n := nOps / nClients
		ops := make([]c03op, n)
		phaseLen := 5 + r.Choose(40, "phaseLen")
		setShare := r.Choose(4, "setShare")
		for i := range ops {
			phase := (i / phaseLen) % 2
			ops[i] = st.drawOp(r.Choose(4, "isSet") < setShare, phase)
		}
		r.Go(fmt.Sprintf("client%d", c), func(t *sim.Task) {
			for _, op := range ops {
				t.Yield("op")
				if !st.apply(op, c) {
					return
				}
			}
		})
	}
	r.RunToQuiescence()
	if r.Failed() {
		return
	}
	for _, t := range r.Unfinished() {
		r.Violate("stuck-task", "task %d:%s not finished", t.ID, t.Name)
		return
	}
	// final: every live version still equals its reference
	for _, v := range st.pool {
		if !st.check(v, "final re-check of all live versions") {
			return
		}
	}
	r.ProbeN("versions", len(st.pool))
	r.ProbeN("events", st.events)
	_ = strings.Join
}
