// Package props holds one scenario generator + oracle per claimed property.
package props

import (
	"sort"
	"time"

	"verif/harness/sim"
)

// Budget bounds a tier: at most Runs simulated runs and at most Wall of wall clock.
type Budget struct {
	Runs int
	Wall time.Duration
}

type Prop struct {
	ID          string
	Level       string // exploration | fault_enumeration
	Rule        string // how cases are generated; what makes one non-trivial / distinct
	Assumptions []string
	Real        []string // components that ran real code
	Stub        []string // components simulated / stubbed
	Quick       Budget
	Thorough    Budget
	MaxStackMB  int // stack limit for workers (injected resource bound); 0 = default 64
	// Exec performs one simulated run: draws the workload, fault plan and schedule through
	// r.Choose, checks the oracles, records probes, and reports through r.Violate.
	Exec sim.Exec
	// ShrinkBudget per violation
	ShrinkQuick, ShrinkThorough time.Duration
}

var registry = map[string]*Prop{}

func Register(p *Prop) {
	if p.ShrinkQuick == 0 {
		p.ShrinkQuick = 20 * time.Second
	}
	if p.ShrinkThorough == 0 {
		p.ShrinkThorough = 120 * time.Second
	}
	registry[p.ID] = p
}

func Get(id string) *Prop { return registry[id] }

func IDs() []string {
	var ids []string
	for k := range registry {
		ids = append(ids, k)
	}
	sort.Strings(ids)
	return ids
}
