package props

import (
	"errors"
	"fmt"
	"sort"
	"strings"
	"time"

	"github.com/csgura/fp"
	"github.com/csgura/fp/future"
	"github.com/csgura/fp/iterator"
	"github.com/csgura/fp/list"
	"github.com/csgura/fp/seq"
	"verif/harness/sim"
)

func init() {
	Register(&Prop{
		ID:    "C06",
		Level: "exploration",
		Rule: "one run = a seeded expression tree (size <= 14, plus flat LiftA5-9/LiftM5-9 and Chain4-9/Applicative4-9 nodes) over 1-5 source promises and leaf creators (Successful/Failed/FromTry/FromOption/Apply/Apply2/Func*/Unit* with " +
			"succeeding, failing and panicking bodies), built by a builder task with the real future API (sub-expressions of FlatMap-like nodes are built inside callbacks, " +
			"i.e. after their input completed) while completer tasks complete the sources in seeded phases (some before the build, some never) and observer tasks attach " +
			"OnComplete at different times; per-node executors from {default goroutine, inline, spawn, fifo worker, lifo worker}; every atomic step is a scheduling point. " +
			"Reference = the same expression over a three-valued Try (Pending/Success/Failure) written in the harness. Invariant after every step: every built node that is " +
			"complete equals its reference over the currently completed sources; at every quiescence: complete <=> reference not Pending. " +
			"non-trivial = at least one source completed before and at least one after the node consuming it was built, and >= 1 context switch; " +
			"distinct = hash of (expression, source plan, schedule).",
		Assumptions: []string{
			"user functions given to Map/FlatMap/... do not panic (the property promises panic capture only for Apply/Apply2/Func*)",
			"executors never drop or duplicate a runnable; Await and promise.WithTimeout (real timers) are outside the statement and not simulated",
		},
		Real:     []string{"future package (all combinators used by the generator)", "fp.Future methods", "fp.Promise", "iterator.FoldFuture / iterator.Fold", "internal/atomic"},
		Stub:     []string{"Go scheduler at atomic steps", "goroutine creation of goExecutor", "user executors", "user functions (pure, instrumented)", "source completion order"},
		Quick:    Budget{Runs: 600000, Wall: 50 * time.Second},
		Thorough: Budget{Runs: 30000000, Wall: 25 * time.Minute},
		Exec:     execC06,
	})
}

// ---------------------------------------------------------------- three-valued reference

type tri struct {
	st  int // 0 pending, 1 success, 2 failure
	v   int
	tag string
}

var triPending = tri{}

func triS(v int) tri      { return tri{st: 1, v: v} }
func triF(tag string) tri { return tri{st: 2, tag: tag} }
func (t tri) String() string {
	switch t.st {
	case 0:
		return "Pending"
	case 1:
		return fmt.Sprintf("S(%d)", t.v)
	}
	return "F(" + t.tag + ")"
}

func f1(c, v int) int          { return v*3 + c }
func f2(c, a, b int) int       { return a*5 + b*7 + c }
func f3(c, a, b, d int) int    { return a*5 + b*7 + d*11 + c }
func f4(c, a, b, d, e int) int { return a*5 + b*7 + d*11 + e*13 + c }
func fv(c int, vs ...int) int {
	h := c
	for i, v := range vs {
		h = (h*37 + v*(i+3)) % 1000003
	}
	return h
}
func hashSeq(vs []int) int {
	h := 17
	for _, v := range vs {
		h = (h*31 + v) % 1000003
	}
	return h
}

// ---------------------------------------------------------------- expression nodes

const (
	opSrc = iota
	opLeaf
	opMap
	opFlatMap
	opTransform
	opRecover
	opOr
	opFailed
	opMethod
	opMap2
	opMap3
	opMap4
	opSeq
	opBuilder2
	opBuilder3
	opBuilderN // Chain4..9 / Applicative4..9
	opLiftN    // LiftA5..9 / LiftM5..9
	nOps
)

type fx struct {
	id    int
	op    int
	k     int // variant
	c     int // constant
	tag   string
	src   int
	ex    int
	kids  []*fx
	args  []*argSpec // builder arguments
	chain bool
	built bool
}

type argSpec struct {
	kind  int
	c     int
	tag   string // "" = success
	child *fx
}

type builtRec struct {
	n        *fx
	f        fp.Future[int]
	val      string // value when first seen complete
	builtSeq int
}

type c06 struct {
	r              *sim.Run
	ex             *execSet
	srcP           []fp.Promise[int]
	srcFinal       []tri // what source i will be completed with
	srcPhase       []int // -1 before build, 0.. phase, 99 never
	sent           map[string]error
	nextID         int
	size           int
	built          []*builtRec
	fnCalls        int
	headBad        string
	srcDoneAtBuild []int // per source: completed-before-some-consumer-built / after flags
}

func (c *c06) errOf(tag string) error {
	if e, ok := c.sent[tag]; ok {
		return e
	}
	e := errors.New(tag)
	c.sent[tag] = e
	return e
}

// tagOf maps an error coming out of the library back to the tag of the fault that caused it.
var c06Three = 3

func (c *c06) tagOf(err error) string {
	if err == nil {
		return "<nil error>"
	}
	if errors.Is(err, fp.ErrFutureNotFailed) {
		return "lib:notfailed"
	}
	if errors.Is(err, fp.ErrOptionEmpty) {
		return "lib:empty"
	}
	var pe interface{ Panic() any }
	if errors.As(err, &pe) {
		return fmt.Sprintf("panic:%v", pe.Panic())
	}
	// (sentinels in sorted order, never in map order; an error carrying several sentinels is reported as such)
	tags := make([]string, 0, len(c.sent))
	for tag := range c.sent {
		tags = append(tags, tag)
	}
	sort.Strings(tags)
	var hits []string
	for _, tag := range tags {
		if errors.Is(err, c.sent[tag]) {
			hits = append(hits, tag)
		}
	}
	if len(hits) > 0 {
		return strings.Join(hits, "+")
	}
	return "unknown:" + firstLineOf(err.Error())
}

func firstLineOf(s string) string {
	if i := strings.IndexByte(s, '\n'); i >= 0 {
		s = s[:i]
	}
	if len(s) > 80 {
		s = s[:80]
	}
	return s
}

func (c *c06) triOf(t fp.Try[int]) tri {
	if t.IsSuccess() {
		return triS(t.Get())
	}
	return triF(c.tagOf(t.Failed().Get()))
}

// gen draws an expression with at most budget nodes.
func (c *c06) gen(depth int, budget *int) *fx {
	r := c.r
	n := &fx{id: c.nextID}
	c.nextID++
	*budget--
	n.ex = r.ChooseWith(exKinds, "ex", func(g *sim.Rng) int {
		if g.Intn(2) == 0 {
			return exDefault
		}
		return g.Intn(exKinds)
	})
	leafOnly := depth >= 4 || *budget <= 0
	if leafOnly {
		n.op = r.ChooseWith(2, "leafop", func(g *sim.Rng) int { // opSrc or opLeaf
			if g.Intn(3) == 0 {
				return opLeaf
			}
			return opSrc
		})
	} else {
		n.op = r.ChooseWith(nOps, "op", func(g *sim.Rng) int {
			if g.Intn(5) == 0 {
				return g.Intn(2)
			}
			return g.Intn(nOps)
		})
	}
	n.c = 1 + r.Choose(9, "c")
	kid := func() *fx { return c.gen(depth+1, budget) }
	switch n.op {
	case opSrc:
		n.src = r.Choose(len(c.srcP), "src")
	case opLeaf:
		n.k = r.Choose(14, "leafk")
		n.tag = fmt.Sprintf("leaf%d", n.id)
	case opMap:
		n.k = r.Choose(6, "mapk")
		n.kids = []*fx{kid()}
	case opFlatMap:
		n.k = r.Choose(10, "fmk")
		n.kids = []*fx{kid(), kid()}
	case opTransform:
		n.k = r.Choose(8, "trk")
		n.tag = fmt.Sprintf("tr%d", n.id)
		n.kids = []*fx{kid(), kid()}
	case opRecover:
		n.k = r.Choose(8, "reck")
		n.tag = fmt.Sprintf("rec%d", n.id)
		n.kids = []*fx{kid(), kid()}
	case opOr:
		n.k = r.Choose(2, "ork")
		n.kids = []*fx{kid(), kid()}
	case opFailed:
		n.kids = []*fx{kid()}
	case opMethod:
		n.k = r.Choose(10, "mek")
		n.tag = fmt.Sprintf("me%d", n.id)
		n.kids = []*fx{kid()}
	case opMap2:
		n.k = r.Choose(8, "m2k")
		n.tag = fmt.Sprintf("m2%d", n.id)
		n.kids = []*fx{kid(), kid()}
	case opMap3:
		n.k = r.Choose(4, "m3k")
		n.tag = fmt.Sprintf("m3%d", n.id)
		n.kids = []*fx{kid(), kid(), kid()}
	case opMap4:
		n.k = r.Choose(2, "m4k")
		n.tag = fmt.Sprintf("m4%d", n.id)
		n.kids = []*fx{kid(), kid(), kid(), kid()}
	case opSeq:
		n.k = r.Choose(13, "seqk")
		nk := r.Choose(5, "seqn")
		for i := 0; i < nk; i++ {
			n.kids = append(n.kids, kid())
		}
	case opLiftN:
		n.k = r.Choose(2, "liftMk")
		n.tag = fmt.Sprintf("ln%d", n.id)
		nk := r.Range(5, 9, "liftN")
		for i := 0; i < nk; i++ {
			n.kids = append(n.kids, c.gen(4, budget)) // operands are leaves / sources
		}
	case opBuilder2, opBuilder3, opBuilderN:
		n.chain = r.Choose(2, "chain") == 1
		na := 2
		if n.op == opBuilder3 {
			na = 3
		}
		if n.op == opBuilderN {
			na = r.Range(4, 9, "builderN")
		}
		for i := 0; i < na; i++ {
			a := &argSpec{c: 1 + r.Choose(9, "argc")}
			if n.chain {
				a.kind = r.Choose(12, "argkind")
			} else {
				a.kind = r.Choose(8, "argkind")
			}
			switch a.kind {
			case akApFuture, akApFutureFunc, akFlatMap, akHListFlatMap:
				if n.op == opBuilderN {
					a.child = c.gen(4, budget)
				} else {
					a.child = kid()
				}
			case akApTry, akApOption, akApTryFunc, akApOptionFunc:
				if r.Choose(3, "argfail") == 2 {
					a.tag = fmt.Sprintf("arg%d_%d", n.id, i)
					if a.kind == akApOption || a.kind == akApOptionFunc {
						a.tag = "lib:empty"
					}
				}
			}
			n.args = append(n.args, a)
		}
	}
	c.size++
	return n
}

const (
	akAp = iota
	akApTry
	akApOption
	akApFuture
	akApFutureFunc
	akApTryFunc
	akApOptionFunc
	akApFunc
	akFlatMap
	akMap
	akHListMap
	akHListFlatMap
)

var akNames = [...]string{"Ap", "ApTry", "ApOption", "ApFuture", "ApFutureFunc", "ApTryFunc", "ApOptionFunc", "ApFunc", "FlatMap", "Map", "HListMap", "HListFlatMap"}

func (n *fx) String() string {
	var sb strings.Builder
	n.write(&sb)
	return sb.String()
}

var opNames = [...]string{"src", "leaf", "map", "flatMap", "transform", "recover", "or", "failed", "method", "map2", "map3", "map4", "seq", "builder2", "builder3", "builderN", "liftN"}

func (n *fx) write(sb *strings.Builder) {
	switch n.op {
	case opSrc:
		fmt.Fprintf(sb, "src%d", n.src)
		return
	case opLeaf:
		fmt.Fprintf(sb, "leaf.%d(%d)", n.k, n.c)
		return
	case opBuilder2, opBuilder3, opBuilderN:
		if n.chain {
			sb.WriteString("Chain")
		} else {
			sb.WriteString("Applicative")
		}
		fmt.Fprintf(sb, "%d", len(n.args))
		for _, a := range n.args {
			fmt.Fprintf(sb, ".%s(", akNames[a.kind])
			if a.child != nil {
				a.child.write(sb)
			} else if a.tag != "" {
				sb.WriteString("fail")
			} else {
				fmt.Fprintf(sb, "%d", a.c)
			}
			sb.WriteString(")")
		}
		return
	}
	fmt.Fprintf(sb, "%s.%d[%s](", opNames[n.op], n.k, exNames[n.ex])
	for i, k := range n.kids {
		if i > 0 {
			sb.WriteString(", ")
		}
		k.write(sb)
	}
	sb.WriteString(")")
}

// ---------------------------------------------------------------- reference evaluation

func (c *c06) srcState(i int) tri {
	p := c.srcP[i]
	if !p.IsCompleted() {
		return triPending
	}
	return c.triOf(p.Value())
}

// leafVal is the eventual value of leaf creators (they need no source).
func (n *fx) leafVal() tri {
	switch n.k {
	case 0, 2, 4, 6, 8, 11, 12, 13:
		return triS(n.c)
	case 1, 3, 9:
		return triF(n.tag)
	case 5:
		return triF("lib:empty")
	case 7, 10:
		if n.c%3 == 1 {
			return triF("panic:runtime error: index out of range [3] with length 0")
		}
		return triF(fmt.Sprintf("panic:boom%d", n.c))
	}
	return triS(n.c)
}

func (c *c06) eval(n *fx) tri {
	ev := c.eval
	switch n.op {
	case opSrc:
		return c.srcState(n.src)
	case opLeaf:
		return n.leafVal()
	case opMap:
		a := ev(n.kids[0])
		if a.st != 1 {
			return a
		}
		switch n.k {
		case 3: // Replace
			return triS(n.c)
		case 4, 5: // MapSeqLift / MapSliceLift over [v, v+1]
			return triS(hashSeq([]int{f1(n.c, a.v), f1(n.c, a.v+1)}))
		}
		return triS(f1(n.c, a.v))
	case opFlatMap:
		a := ev(n.kids[0])
		if n.k == 8 || n.k == 9 { // ComposeTry / ComposeOption: first stage is a leaf decided by c
			a = triS(n.c)
			if n.c%3 == 0 {
				if n.k == 8 {
					a = triF(fmt.Sprintf("ct%d", n.id))
				} else {
					a = triF("lib:empty")
				}
			}
		}
		if a.st != 1 {
			return a
		}
		b := ev(n.kids[1])
		if b.st != 1 {
			return b
		}
		return triS(a.v*7 + b.v)
	case opTransform:
		a := ev(n.kids[0])
		if a.st == 0 {
			return a
		}
		switch n.k {
		case 0: // identity
			return a
		case 1: // success -> failure, failure stays
			if a.st == 1 {
				return triF(n.tag)
			}
			return a
		case 2: // failure -> success(c), success mapped
			if a.st == 2 {
				return triS(n.c)
			}
			return triS(f1(n.c, a.v))
		case 3: // swap
			if a.st == 2 {
				return triS(n.c)
			}
			return triF(n.tag)
		case 4: // TransformWith: always continue with kid1
			return ev(n.kids[1])
		case 5: // TransformWith: success -> kid1, failure -> Failed(tag)
			if a.st == 1 {
				return ev(n.kids[1])
			}
			return triF(n.tag)
		case 6: // TransformWith: failure -> kid1, success -> Successful(f1)
			if a.st == 2 {
				return ev(n.kids[1])
			}
			return triS(f1(n.c, a.v))
		default: // TransformWith identity
			return a
		}
	case opRecover:
		a := ev(n.kids[0])
		if a.st != 2 {
			return a
		}
		defined := n.c%2 == 0 // isDefinedAt
		switch n.k {
		case 0: // Recover
			return triS(n.c)
		case 1: // RecoverWith -> kid1
			return ev(n.kids[1])
		case 2: // RecoverCase
			if defined {
				return triS(n.c)
			}
			return a
		case 3: // RecoverCaseWith
			if defined {
				return ev(n.kids[1])
			}
			return a
		case 4: // RecoverWith -> Failed(tag)
			return triF(n.tag)
		case 5: // future-level Transform used as recover
			return triS(n.c)
		case 6: // Recover
			return triS(n.c + 1)
		default:
			return ev(n.kids[1])
		}
	case opOr:
		a := ev(n.kids[0])
		if a.st != 2 {
			return a
		}
		return ev(n.kids[1])
	case opFailed:
		a := ev(n.kids[0])
		switch a.st {
		case 0:
			return a
		case 1:
			return triF("lib:notfailed")
		}
		return triS(len(a.tag))
	case opMethod:
		a := ev(n.kids[0])
		if a.st != 1 {
			return a
		}
		switch n.k {
		case 0, 4, 8: // Method1 / FlapMap / With
			return triS(f2(n.c, a.v, 4))
		case 1, 5: // FlatMethod1 / FlatFlapMap
			if n.c%3 == 0 {
				return triF(n.tag)
			}
			return triS(f2(n.c, a.v, 4))
		case 2: // Method2
			return triS(f3(n.c, a.v, 4, 6))
		case 3: // FlatMethod2
			if n.c%3 == 0 {
				return triF(n.tag)
			}
			return triS(f3(n.c, a.v, 4, 6))
		case 6: // Method3
			return triS(f4(n.c, a.v, 4, 6, 8))
		case 7: // FlatMethod3
			if n.c%3 == 0 {
				return triF(n.tag)
			}
			return triS(f4(n.c, a.v, 4, 6, 8))
		default: // Flap on mapped function
			return triS(f2(n.c, a.v, 4))
		}
	case opMap2:
		a := ev(n.kids[0])
		if a.st != 1 {
			return a
		}
		b := ev(n.kids[1])
		if n.k == 6 { // Flap(Map(a->func))(c): second operand is the constant 4
			b = triS(4)
		}
		if b.st != 1 {
			return b
		}
		if n.k == 3 && n.c%3 == 0 { // LiftM2 with failing continuation
			return triF(n.tag)
		}
		return triS(f2(n.c, a.v, b.v))
	case opMap3:
		var vs []int
		for i, k := range n.kids {
			x := ev(k)
			if n.k == 3 && i > 0 { // Flap2(tf)(c1)(c2): operands 2,3 are constants
				x = triS(4 + 2*i)
			}
			if x.st != 1 {
				return x
			}
			vs = append(vs, x.v)
		}
		if n.k == 2 && n.c%3 == 0 { // LiftM3 failing
			return triF(n.tag)
		}
		return triS(f3(n.c, vs[0], vs[1], vs[2]))
	case opMap4:
		var vs []int
		for _, k := range n.kids {
			x := ev(k)
			if x.st != 1 {
				return x
			}
			vs = append(vs, x.v)
		}
		if n.k == 1 && n.c%3 == 0 {
			return triF(n.tag)
		}
		return triS(f4(n.c, vs[0], vs[1], vs[2], vs[3]))
	case opSeq:
		var vs []int
		for _, k := range n.kids {
			x := ev(k)
			if x.st != 1 {
				return x
			}
			vs = append(vs, x.v)
		}
		return triS(hashSeq(vs))
	case opLiftN:
		var vs []int
		for _, k := range n.kids {
			x := ev(k)
			if x.st != 1 {
				return x
			}
			vs = append(vs, x.v)
		}
		if n.k == 1 && n.c%3 == 0 {
			return triF(n.tag)
		}
		return triS(fv(n.c, vs...))
	case opBuilder2, opBuilder3, opBuilderN:
		var vs []int
		for _, a := range n.args {
			x := c.evalArg(a)
			if x.st != 1 {
				return x
			}
			vs = append(vs, x.v)
		}
		switch len(vs) {
		case 2:
			return triS(f2(n.c, vs[0], vs[1]))
		case 3:
			return triS(f3(n.c, vs[0], vs[1], vs[2]))
		}
		return triS(fv(n.c, vs...))
	}
	panic("eval: bad op")
}

func (c *c06) evalArg(a *argSpec) tri {
	if a.child != nil {
		return c.eval(a.child)
	}
	if a.tag != "" {
		return triF(a.tag)
	}
	return triS(a.c)
}

// ---------------------------------------------------------------- building with the real API

func (c *c06) reg(n *fx, f fp.Future[int]) fp.Future[int] {
	if n.built {
		c.r.Violate("harness", "node %d built twice", n.id)
	}
	n.built = true
	c.built = append(c.built, &builtRec{n: n, f: f, builtSeq: len(c.built)})
	// bookkeeping for the non-triviality rule
	for _, k := range n.kids {
		if k.op == opSrc {
			if c.srcP[k.src].IsCompleted() {
				c.srcDoneAtBuild[k.src] |= 1
			} else {
				c.srcDoneAtBuild[k.src] |= 2
			}
		}
	}
	return f
}

func (c *c06) tryOf(t tri) fp.Try[int] {
	if t.st == 1 {
		return fp.Success(t.v)
	}
	return fp.Failure[int](c.errOf(t.tag))
}

func (c *c06) optOf(t tri) fp.Option[int] {
	if t.st == 1 {
		return fp.Some(t.v)
	}
	return fp.None[int]()
}

func (c *c06) build(n *fx) fp.Future[int] {
	return c.reg(n, c.build0(n))
}

func (c *c06) build0(n *fx) fp.Future[int] {
	ctx := c.ex.ctx(n.ex)
	bld := c.build
	called := func() { c.fnCalls++ }
	switch n.op {
	case opSrc:
		return c.srcP[n.src].Future()
	case opLeaf:
		v := n.leafVal()
		boom := fmt.Sprintf("boom%d", n.c)
		// one body in three dies with a panic raised by the Go runtime itself (a runtime.Error) instead of panic(string)
		die := func() {
			if n.c%3 == 1 {
				var empty []int
				_ = empty[c06Three]
			}
			panic(boom)
		}
		switch n.k {
		case 0:
			return future.Successful(n.c)
		case 1:
			return future.Failed[int](c.errOf(n.tag))
		case 2, 3:
			return future.FromTry(c.tryOf(v))
		case 4, 5:
			return future.FromOption(c.optOf(v))
		case 6:
			return future.Apply(func() int { called(); return n.c }, ctx...)
		case 7:
			c.r.Fault("apply-body-panics")
			return future.Apply(func() int { called(); die(); return 0 }, ctx...)
		case 8:
			return future.Apply2(func() (int, error) { called(); return n.c, nil }, ctx...)
		case 9:
			c.r.Fault("apply2-body-returns-error")
			return future.Apply2(func() (int, error) { called(); return 0, c.errOf(n.tag) }, ctx...)
		case 10:
			c.r.Fault("apply2-body-panics")
			return future.Apply2(func() (int, error) { called(); die(); return 0, nil }, ctx...)
		case 11:
			return future.Func1(func(a int) (int, error) { called(); return a, nil }, ctx...)(n.c)
		case 12:
			return future.Func2(func(a, b int) (int, error) { called(); return a - b, nil }, ctx...)(n.c+3, 3)
		default:
			u := future.Unit1(func(a int) error { called(); return nil }, ctx...)(n.c)
			return future.Map(u, func(fp.Unit) int { return n.c }, ctx...)
		}
	case opMap:
		a := bld(n.kids[0])
		f := func(v int) int { called(); return f1(n.c, v) }
		switch n.k {
		case 0:
			return future.Map(a, f, ctx...)
		case 1:
			return a.Map(f, ctx...)
		case 2:
			return future.Lift(f, ctx...)(a)
		case 3:
			return future.Replace(a, n.c)
		case 4:
			s := future.Map(a, func(v int) fp.Seq[int] { return fp.Seq[int]{v, v + 1} }, ctx...)
			return future.Map(future.MapSeqLift(s, f, ctx...), func(s fp.Seq[int]) int { return hashSeq(s) }, ctx...)
		default:
			s := future.Map(a, func(v int) []int { return []int{v, v + 1} }, ctx...)
			return future.Map(future.MapSliceLift(s, f, ctx...), func(s []int) int { return hashSeq(s) }, ctx...)
		}
	case opFlatMap:
		k := func(v int) fp.Future[int] {
			called()
			return future.Map(bld(n.kids[1]), func(w int) int { return v*7 + w })
		}
		switch n.k {
		case 0:
			return future.FlatMap(bld(n.kids[0]), k, ctx...)
		case 1:
			return bld(n.kids[0]).FlatMap(k, ctx...)
		case 2:
			return future.Flatten(future.Map(bld(n.kids[0]), k, ctx...))
		case 3:
			return future.LiftM(k, ctx...)(bld(n.kids[0]))
		case 4:
			return future.Compose(func(int) fp.Future[int] { return bld(n.kids[0]) }, k, ctx...)(0)
		case 5:
			return future.Compose2(func(int) fp.Future[int] { return bld(n.kids[0]) }, k, ctx...)(0)
		case 6:
			return future.Compose3(func(x int) fp.Future[int] { return future.Successful(x) }, func(int) fp.Future[int] { return bld(n.kids[0]) }, k, ctx...)(0)
		case 7:
			return future.FlatMap(future.FlatMap(future.Successful(0), func(int) fp.Future[int] { return bld(n.kids[0]) }, ctx...), k, ctx...)
		case 8:
			st := c.eval(n) // only to know the leaf decision; decided by c alone
			_ = st
			first := triS(n.c)
			if n.c%3 == 0 {
				first = triF(fmt.Sprintf("ct%d", n.id))
			}
			return future.ComposeTry(func(int) fp.Try[int] { return c.tryOf(first) }, k, ctx...)(0)
		default:
			first := triS(n.c)
			if n.c%3 == 0 {
				first = triF("lib:empty")
			}
			return future.ComposeOption(func(int) fp.Option[int] { return c.optOf(first) }, k, ctx...)(0)
		}
	case opTransform:
		a := bld(n.kids[0])
		switch n.k {
		case 0:
			return future.Transform(a, func(t fp.Try[int]) fp.Try[int] { called(); return t }, ctx...)
		case 1:
			return future.Transform(a, func(t fp.Try[int]) fp.Try[int] {
				called()
				if t.IsSuccess() {
					return fp.Failure[int](c.errOf(n.tag))
				}
				return t
			}, ctx...)
		case 2:
			return future.Transform(a, func(t fp.Try[int]) fp.Try[int] {
				called()
				if t.IsSuccess() {
					return fp.Success(f1(n.c, t.Get()))
				}
				return fp.Success(n.c)
			}, ctx...)
		case 3:
			return future.Transform(a, func(t fp.Try[int]) fp.Try[int] {
				called()
				if t.IsSuccess() {
					return fp.Failure[int](c.errOf(n.tag))
				}
				return fp.Success(n.c)
			}, ctx...)
		case 4:
			return future.TransformWith(a, func(t fp.Try[int]) fp.Future[int] { called(); return bld(n.kids[1]) }, ctx...)
		case 5:
			return future.TransformWith(a, func(t fp.Try[int]) fp.Future[int] {
				called()
				if t.IsSuccess() {
					return bld(n.kids[1])
				}
				return future.Failed[int](c.errOf(n.tag))
			}, ctx...)
		case 6:
			return future.TransformWith(a, func(t fp.Try[int]) fp.Future[int] {
				called()
				if t.IsSuccess() {
					return future.Successful(f1(n.c, t.Get()))
				}
				return bld(n.kids[1])
			}, ctx...)
		default:
			return future.TransformWith(a, func(t fp.Try[int]) fp.Future[int] { called(); return future.FromTry(t) }, ctx...)
		}
	case opRecover:
		a := bld(n.kids[0])
		isDef := func(error) bool { return n.c%2 == 0 }
		switch n.k {
		case 0:
			return a.Recover(func(error) int { called(); return n.c }, ctx...)
		case 1:
			return a.RecoverWith(func(error) fp.Future[int] { called(); return bld(n.kids[1]) }, ctx...)
		case 2:
			return a.RecoverCase(isDef, func(error) int { called(); return n.c }, ctx...)
		case 3:
			return a.RecoverCaseWith(isDef, func(error) fp.Future[int] { called(); return bld(n.kids[1]) }, ctx...)
		case 4:
			return a.RecoverWith(func(error) fp.Future[int] { called(); return future.Failed[int](c.errOf(n.tag)) }, ctx...)
		case 5:
			return future.Transform(a, func(t fp.Try[int]) fp.Try[int] { return t.Recover(func(error) int { return n.c }) }, ctx...)
		case 6:
			return a.Recover(func(error) int { called(); return n.c + 1 }, ctx...)
		default:
			return a.RecoverWith(func(error) fp.Future[int] { called(); return bld(n.kids[1]) }, ctx...)
		}
	case opOr:
		a := bld(n.kids[0])
		if n.k == 0 {
			return a.Or(func() fp.Future[int] { called(); return bld(n.kids[1]) })
		}
		return a.OrFuture(bld(n.kids[1]))
	case opFailed:
		return future.Map(bld(n.kids[0]).Failed(), func(e error) int { return len(c.tagOf(e)) }, ctx...)
	case opMethod:
		a := bld(n.kids[0])
		flat := func(v int) fp.Future[int] {
			if n.c%3 == 0 {
				return future.Failed[int](c.errOf(n.tag))
			}
			return future.Successful(v)
		}
		switch n.k {
		case 0:
			return future.Method1(a, func(x, y int) int { called(); return f2(n.c, x, y) }, ctx...)(4)
		case 1:
			return future.FlatMethod1(a, func(x, y int) fp.Future[int] { called(); return flat(f2(n.c, x, y)) }, ctx...)(4)
		case 2:
			return future.Method2(a, func(x, y, z int) int { called(); return f3(n.c, x, y, z) }, ctx...)(4, 6)
		case 3:
			return future.FlatMethod2(a, func(x, y, z int) fp.Future[int] { called(); return flat(f3(n.c, x, y, z)) })(4, 6)
		case 4:
			return future.FlapMap(func(x, y int) int { called(); return f2(n.c, x, y) }, a, ctx...)(4)
		case 5:
			return future.FlatFlapMap(func(x, y int) fp.Future[int] { called(); return flat(f2(n.c, x, y)) }, a, ctx...)(4)
		case 6:
			return future.Method4(a, func(x, y, z, w int) int { called(); return f4(n.c, x, y, z, w) }, ctx...)(4, 6, 8)
		case 7:
			return future.FlatMethod4(a, func(x, y, z, w int) fp.Future[int] { called(); return flat(f4(n.c, x, y, z, w)) }, ctx...)(4, 6, 8)
		case 8:
			// With(withf, v)(x) = Map(v, b -> withf(x, b)); here v = a and x = 4, so flip the arguments
			return future.With(func(x, b int) int { called(); return f2(n.c, b, x) }, a, ctx...)(4)
		default:
			tf := future.Map(a, func(v int) fp.Func1[int, int] { return func(y int) int { called(); return f2(n.c, v, y) } }, ctx...)
			return future.Flap(tf, ctx...)(4)
		}
	case opMap2:
		g := func(x, y int) int { called(); return f2(n.c, x, y) }
		switch n.k {
		case 0:
			return future.Map2(bld(n.kids[0]), bld(n.kids[1]), g, ctx...)
		case 1:
			z := future.Zip(bld(n.kids[0]), bld(n.kids[1]))
			return future.Map(z, func(t fp.Tuple2[int, int]) int { return g(t.I1, t.I2) }, ctx...)
		case 2:
			return future.LiftA2(g, ctx...)(bld(n.kids[0]), bld(n.kids[1]))
		case 3:
			return future.LiftM2(func(x, y int) fp.Future[int] {
				called()
				if n.c%3 == 0 {
					return future.Failed[int](c.errOf(n.tag))
				}
				return future.Successful(f2(n.c, x, y))
			}, ctx...)(bld(n.kids[0]), bld(n.kids[1]))
		case 4:
			tf := future.Map(bld(n.kids[0]), func(v int) fp.Func1[int, int] { return func(y int) int { return g(v, y) } }, ctx...)
			return future.Ap(tf, bld(n.kids[1]), ctx...)
		case 5:
			tf := future.Map(bld(n.kids[0]), func(v int) fp.Func1[int, int] { return func(y int) int { return g(v, y) } }, ctx...)
			return future.ApFunc(tf, func() fp.Future[int] { return bld(n.kids[1]) }, ctx...)
		case 6:
			tf := future.Map(bld(n.kids[0]), func(v int) fp.Func1[int, int] { return func(y int) int { return g(v, y) } }, ctx...)
			n.kids[1].built = true // never built: Flap takes a plain value
			return future.Flap(tf, ctx...)(4)
		default:
			// FlatMap + Map written out by the user
			return future.FlatMap(bld(n.kids[0]), func(x int) fp.Future[int] {
				return bld(n.kids[1]).Map(func(y int) int { return g(x, y) }, ctx...)
			}, ctx...)
		}
	case opMap3:
		g := func(x, y, z int) int { called(); return f3(n.c, x, y, z) }
		switch n.k {
		case 0:
			z := future.Zip3(bld(n.kids[0]), bld(n.kids[1]), bld(n.kids[2]))
			return future.Map(z, func(t fp.Tuple3[int, int, int]) int { return g(t.I1, t.I2, t.I3) }, ctx...)
		case 1:
			return future.LiftA3(g, ctx...)(bld(n.kids[0]), bld(n.kids[1]), bld(n.kids[2]))
		case 2:
			return future.LiftM3(func(x, y, z int) fp.Future[int] {
				called()
				if n.c%3 == 0 {
					return future.Failed[int](c.errOf(n.tag))
				}
				return future.Successful(f3(n.c, x, y, z))
			}, ctx...)(bld(n.kids[0]), bld(n.kids[1]), bld(n.kids[2]))
		default:
			tf := future.Map(bld(n.kids[0]), func(v int) fp.Func1[int, fp.Func1[int, int]] {
				return func(y int) fp.Func1[int, int] { return func(z int) int { return g(v, y, z) } }
			}, ctx...)
			n.kids[1].built, n.kids[2].built = true, true
			return future.Flap2(tf, ctx...)(6)(8)
		}
	case opMap4:
		if n.k == 0 {
			return future.LiftA4(func(x, y, z, w int) int { called(); return f4(n.c, x, y, z, w) }, ctx...)(bld(n.kids[0]), bld(n.kids[1]), bld(n.kids[2]), bld(n.kids[3]))
		}
		return future.LiftM4(func(x, y, z, w int) fp.Future[int] {
			called()
			if n.c%3 == 0 {
				return future.Failed[int](c.errOf(n.tag))
			}
			return future.Successful(f4(n.c, x, y, z, w))
		}, ctx...)(bld(n.kids[0]), bld(n.kids[1]), bld(n.kids[2]), bld(n.kids[3]))
	case opSeq:
		idx := make([]int, len(n.kids))
		for i := range idx {
			idx[i] = i
		}
		fn := func(i int) fp.Future[int] {
			called()
			if i < 0 || i >= len(n.kids) {
				c.r.Violate("input-read-after-return", "node %d: the traverse function was handed %d, which the caller wrote into its own slice AFTER the Traverse call had returned (the slice held 0..%d then)", n.id, i, len(n.kids)-1)
				return future.Successful(0)
			}
			return bld(n.kids[i])
		}
		hs := func(s fp.Seq[int]) int { return hashSeq(s) }
		// the caller's slice is its own again once the call has returned: it is recycled (overwritten) right away, while
		// the element futures may still be pending
		reuse := func() {
			for i := range idx {
				idx[i] = -7
			}
			c.r.Fault("input-slice-recycled-after-the-call")
		}
		switch n.k {
		case 0:
			fs := make([]fp.Future[int], len(n.kids))
			for i, k := range n.kids {
				fs[i] = bld(k)
			}
			return future.Map(future.Sequence(fs, ctx...), func(s []int) int { return hashSeq(s) }, ctx...)
		case 1:
			fs := make([]fp.Future[int], len(n.kids))
			for i, k := range n.kids {
				fs[i] = bld(k)
			}
			return future.Map(future.SequenceIterator(iterator.FromSlice(fs), ctx...), func(it fp.Iterator[int]) int { return hashSeq(it.ToSeq()) }, ctx...)
		case 2:
			return future.Map(future.Traverse(iterator.FromSlice(idx), fn, ctx...), func(it fp.Iterator[int]) int { return hashSeq(it.ToSeq()) }, ctx...)
		case 3:
			defer reuse()
			return future.Map(future.TraverseSeq(fp.Seq[int](idx), fn, ctx...), hs, ctx...)
		case 4:
			defer reuse()
			return future.Map(future.TraverseSlice(idx, fn, ctx...), func(s []int) int { return hashSeq(s) }, ctx...)
		case 5:
			defer reuse()
			return future.Map(future.TraverseSeqFunc(fn, ctx...)(fp.Seq[int](idx)), hs, ctx...)
		case 6:
			return future.Map(future.FlatMapTraverseSeq(future.Successful(fp.Seq[int](idx)), fn, ctx...), hs, ctx...)
		case 7:
			return future.Map(future.FlatMapTraverseSlice(future.Successful(idx), fn, ctx...), func(s []int) int { return hashSeq(s) }, ctx...)
		case 8:
			ff := iterator.FoldFuture(iterator.FromSlice(idx), seq.Empty[int](), func(acc fp.Seq[int], i int) fp.Future[fp.Seq[int]] {
				return future.Map(fn(i), acc.Add, ctx...)
			}, ctx...)
			return future.Map(ff, hs, ctx...)
		case 11:
			return future.Map(future.TraverseFunc(fn, ctx...)(iterator.FromSlice(idx)), func(it fp.Iterator[int]) int { return hashSeq(it.ToSeq()) }, ctx...)
		case 12:
			defer reuse()
			return future.Map(future.TraverseSliceFunc(fn, ctx...)(idx), func(s []int) int { return hashSeq(s) }, ctx...)
		case 9:
			ff := seq.FoldFuture(fp.Seq[int](idx), seq.Empty[int](), func(acc fp.Seq[int], i int) fp.Future[fp.Seq[int]] {
				return future.Map(fn(i), acc.Add, ctx...)
			}, ctx...)
			return future.Map(ff, hs, ctx...)
		default:
			ff := list.FoldFuture(list.Of(idx...), seq.Empty[int](), func(acc fp.Seq[int], i int) fp.Future[fp.Seq[int]] {
				return future.Map(fn(i), acc.Add, ctx...)
			}, ctx...)
			return future.Map(ff, hs, ctx...)
		}
	case opBuilder2:
		if n.chain {
			return c.chain2(n)
		}
		return c.applicative2(n)
	case opBuilder3:
		if n.chain {
			return c.chain3(n)
		}
		return c.applicative3(n)
	case opBuilderN:
		return c.builderN(n)
	case opLiftN:
		return c.liftN(n)
	}
	panic("build: bad op")
}

// argument helpers shared by the generated builder code
func (c *c06) argTry(a *argSpec) fp.Try[int]    { return c.tryOf(c.evalArg(a)) }
func (c *c06) argOpt(a *argSpec) fp.Option[int] { return c.optOf(c.evalArg(a)) }
func (c *c06) argFut(a *argSpec) fp.Future[int] { c.fnCalls++; return c.build(a.child) }
func (c *c06) checkHead(where string, got, want int) {
	if got != want && c.headBad == "" {
		c.headBad = fmt.Sprintf("%s: continuation received head %d, previous argument was %d", where, got, want)
	}
}

// ---------------------------------------------------------------- the run

func execC06(r *sim.Run) {
	r.Case = "expr"
	c := &c06{r: r, ex: &execSet{run: r}, sent: map[string]error{}}
	nSrc := r.Range(1, 5, "nSrc")
	c.srcP = make([]fp.Promise[int], nSrc)
	c.srcFinal = make([]tri, nSrc)
	c.srcPhase = make([]int, nSrc)
	c.srcDoneAtBuild = make([]int, nSrc)
	nPhases := r.Range(1, 3, "nPhases")
	for i := range c.srcP {
		c.srcP[i] = fp.NewPromise[int]()
		if r.Choose(4, "srcFail") == 3 {
			c.srcFinal[i] = triF(fmt.Sprintf("src%d", i))
			r.Fault("source-fails")
		} else {
			c.srcFinal[i] = triS(10 + i)
		}
		// phase: -1 completed before the build, 0..nPhases-1, or never
		c.srcPhase[i] = r.ChooseWith(nPhases+2, "srcPhase", func(g *sim.Rng) int {
			if g.Intn(8) == 0 {
				return nPhases + 1
			}
			return g.Intn(nPhases + 1)
		}) - 1
		if c.srcPhase[i] == nPhases {
			c.srcPhase[i] = 99
			r.Fault("source-never-completes")
		}
	}
	budget := r.Range(1, 13, "size")
	root := c.gen(0, &budget)
	r.MixFingerprintS(root.String())
	for i := range c.srcP {
		r.MixFingerprint(uint64(c.srcPhase[i]+2)<<8 | uint64(c.srcFinal[i].st))
	}
	r.Logf("expr: %s", root)
	for i := range c.srcP {
		r.Logf("source %d: %s in phase %d", i, c.srcFinal[i], c.srcPhase[i])
	}

	complete := func(i int) bool {
		f := c.srcFinal[i]
		if f.st == 1 {
			return c.srcP[i].Success(f.v)
		}
		return c.srcP[i].Failure(c.errOf(f.tag))
	}
	for i := range c.srcP {
		if c.srcPhase[i] == -1 {
			complete(i)
		}
	}

	phase := 0
	var rootF fp.Future[int]
	rootBuilt := false
	r.Go("builder", func(t *sim.Task) {
		rootF = c.build(root)
		rootBuilt = true
	})
	for i := range c.srcP {
		if c.srcPhase[i] < 0 || c.srcPhase[i] == 99 {
			continue
		}
		i := i
		r.Go(fmt.Sprintf("completer%d", i), func(t *sim.Task) {
			ph := c.srcPhase[i]
			t.WaitUntil("phase", func() bool { return phase >= ph })
			if !complete(i) {
				r.Violate("source-completion-lost", "completing source %d returned false", i)
			}
		})
	}
	// observers on the root future
	nObs := r.Choose(4, "nObs")
	type obs struct {
		at    int
		count int
		got   string
		ex    int
	}
	observers := make([]*obs, nObs)
	for i := range observers {
		o := &obs{at: r.Choose(nPhases+1, "obsAt"), ex: r.Choose(exKinds, "obsEx")}
		observers[i] = o
		r.Go(fmt.Sprintf("observer%d", i), func(t *sim.Task) {
			t.WaitUntil("obs", func() bool { return rootBuilt && phase >= o.at })
			rootF.OnComplete(func(tr fp.Try[int]) {
				o.count++
				o.got = c.triOf(tr).String()
			}, c.ex.ctx(o.ex)...)
		})
	}

	// invariant after every scheduler step
	r.StepCheck = func() {
		for _, b := range c.built {
			if !b.f.IsCompleted() {
				if b.val != "" {
					r.Violate("completion-not-stable", "node %d (%s) was complete with %s and is not complete any more", b.n.id, b.n, b.val)
				}
				continue
			}
			got := c.triOf(b.f.Value())
			if b.val == "" {
				b.val = got.String()
			} else if b.val != got.String() {
				r.Violate("completed-twice", "node %d (%s) changed its value from %s to %s", b.n.id, b.n, b.val, got)
				return
			}
			ref := c.eval(b.n)
			if ref.st == 0 {
				r.Violate("completed-early", "node %d (%s) is complete with %s while the sources its evaluation depends on are not all complete (reference: Pending)", b.n.id, b.n, got)
				return
			}
			if ref != got {
				r.Violate("wrong-value", "node %d (%s) completed with %s, reference evaluation gives %s", b.n.id, b.n, got, ref)
				return
			}
		}
	}

	quiesce := func(when string) bool {
		r.RunToQuiescence()
		if r.Failed() {
			return false
		}
		if bl := r.BlockedTasks(); len(bl) > 0 {
			r.Violate("deadlock", "%s: %d task(s) blocked", when, len(bl))
			return false
		}
		if n := c.ex.pending(); n > 0 {
			r.Violate("stuck-exec", "%s: %d runnable(s) left in executor queues", when, n)
			return false
		}
		for _, t := range r.Unfinished() {
			if t.ParkLabel() == "phase" || t.ParkLabel() == "obs" {
				continue
			}
			r.Violate("stuck-task", "%s: task %d:%s not finished (parked at %s)", when, t.ID, t.Name, t.ParkLabel())
			return false
		}
		if !rootBuilt {
			r.Violate("harness", "%s: root not built", when)
			return false
		}
		for _, b := range c.built {
			ref := c.eval(b.n)
			done := b.f.IsCompleted()
			if ref.st != 0 && !done {
				r.Violate("not-completed", "%s: node %d (%s) is not complete although every source its evaluation depends on is (reference: %s)", when, b.n.id, b.n, ref)
				return false
			}
		}
		if c.headBad != "" {
			r.Violate("chain-head", "%s", c.headBad)
			return false
		}
		return true
	}

	for phase = 0; phase <= nPhases; phase++ {
		if !quiesce(fmt.Sprintf("phase %d", phase)) {
			return
		}
	}
	// observers: exactly once, with the root's value, iff the root completed
	rootDone := rootF.IsCompleted()
	for i, o := range observers {
		want := 0
		if rootDone {
			want = 1
		}
		if o.count != want {
			r.Violate("observer-count", "observer %d of the root (attached in phase %d, executor %s) fired %d time(s), want %d", i, o.at, exNames[o.ex], o.count, want)
			return
		}
		if rootDone && o.got != c.triOf(rootF.Value()).String() {
			r.Violate("observer-value", "observer %d saw %s, root value is %s", i, o.got, c.triOf(rootF.Value()))
			return
		}
	}
	before, after := false, false
	for _, f := range c.srcDoneAtBuild {
		if f&1 != 0 {
			before = true
		}
		if f&2 != 0 {
			after = true
		}
	}
	if before && after && r.Switches > 0 {
		r.NonTrivial()
	}
	r.ProbeN("nodes-built", len(c.built))
	if rootDone {
		r.Probe("root-completed")
	} else {
		r.Probe("root-pending-forever")
	}
}
