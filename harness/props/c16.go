package props

import (
	"fmt"
	"strings"
	"time"

	"github.com/csgura/fp"
	"github.com/csgura/fp/iterator"
	"github.com/csgura/fp/lazy"
	"github.com/csgura/fp/list"
	"github.com/csgura/fp/seq"
	"verif/harness/sim"
)

func init() {
	Register(&Prop{
		ID:    "C16",
		Level: "exploration",
		Rule: "run classes: (memo) one shared deferred value built with lazy.Call/TailCall/TailCall1-3/Memoize/Func1-3 or fp.Memoize whose instrumented thunk " +
			"counts executions, yields 0-3 times inside (other tasks arrive while sync.Once is held and block on it) and, as injected fault, panics; 2-5 tasks call Get concurrently and repeatedly. " +
			"(eval) a seeded lazy.Eval expression tree (Done/Call/TailCall*/Map/FlatMap/Map2/Func1-3, size <= 40) shared by 1-4 tasks, compared with a strict interpreter in the harness. " +
			"(list) memoised list cells (fp.MakeList, list.Generate/GenerateFrom/Recurrence1/2/Map/Zip/Scan/Collect, iterator.ToList) traversed by 2-4 tasks concurrently. " +
			"(tailrec) tail-recursive programs (TailCall, TailCall1-3, mutual recursion) at seeded depth up to 10^6 (quick) / 2*10^7 (thorough) under an 8 MB stack limit (debug.SetMaxStack, injected resource bound). " +
			"Oracle: every deferred computation instance ran at most once at all times; every call that returns without an injected panic returns the strict value and only after the computation finished. " +
			"non-trivial = a second task entered Get while the first was inside the thunk (a task was seen blocked on the Once, or two tasks overlapped inside evaluation); distinct = hash of (shape, schedule).",
		Assumptions: []string{
			"sync.Once of the Go runtime is trusted; a thunk that panics counts as executed (sync.Once semantics): later calls are only required not to re-run it",
			"(eval) and (tailrec) with a single task are deterministic payload runs, not interleavings; the evidence lists them as separate run classes",
		},
		Real:       []string{"lazy package", "fp.Memoize", "fp.MakeList / ListAdaptor", "list.Generate/Recurrence/Map/Zip/Scan/Collect", "iterator.ToList", "seq/iterator/list.FoldRight"},
		Stub:       []string{"Go scheduler between tasks (seeded; yield points inside harness thunks, blocking on sync.Once detected from the runtime)", "thunks (instrumented, may stall or panic)", "stack limit"},
		Quick:      Budget{Runs: 150000, Wall: 45 * time.Second},
		Thorough:   Budget{Runs: 4000000, Wall: 25 * time.Minute},
		MaxStackMB: 8,
		Exec:       execC16,
	})
}

type c16counter struct {
	name     string
	n        int
	running  bool
	finished bool
}

type c16 struct {
	r        *sim.Run
	counters []*c16counter
	stallN   int // yields inside instrumented thunks
	inEval   int // tasks currently inside a Get
	overlap  bool
	collect  bool
	subs     []c16sub
	evDone   []*ev // completely generated sub-programs (candidates for sharing)
	built    map[*ev]lazy.Eval[int]
}

func (c *c16) counter(name string) *c16counter {
	k := &c16counter{name: name}
	c.counters = append(c.counters, k)
	return k
}

// enter is called at the start of an instrumented deferred computation.
func (c *c16) enter(k *c16counter) {
	c.r.Gate("enter")
	k.n++
	if k.n > 1 {
		c.r.Violate("run-twice", "deferred computation %s executed %d times", k.name, k.n)
	}
	if k.running {
		c.r.Violate("run-concurrently", "deferred computation %s entered while it is already running", k.name)
	}
	k.running = true
	if t := c.r.CurrentTask(); t != nil {
		for i := 0; i < c.stallN; i++ {
			c.r.Fault("thunk-stall")
			t.Yield("stall:" + k.name)
		}
	}
}

func (c *c16) leave(k *c16counter) {
	k.running = false
	k.finished = true
}

func (c *c16) checkCounters() {
	for _, k := range c.counters {
		if k.n > 1 {
			c.r.Violate("run-twice", "deferred computation %s executed %d times", k.name, k.n)
			return
		}
	}
}

func execC16(r *sim.Run) {
	c := &c16{r: r}
	switch r.ChooseWith(4, "class", func(g *sim.Rng) int {
		x := g.Intn(200)
		switch {
		case x == 0:
			return 3
		case x < 80:
			return 0
		case x < 140:
			return 1
		}
		return 2
	}) {
	case 0:
		c.memo()
	case 1:
		c.evalTree()
	case 2:
		c.listCells()
	case 3:
		c.tailRec()
	}
	if !r.Failed() {
		c.checkCounters()
	}
	if r.BlockedSeen > 0 || c.overlap {
		r.NonTrivial()
	}
}

// quiesce runs the tasks and reports deadlocks / stuck tasks.
func (c *c16) quiesce() bool {
	r := c.r
	r.RunToQuiescence()
	if r.Failed() {
		return false
	}
	if bl := r.BlockedTasks(); len(bl) > 0 {
		r.Violate("deadlock", "%d task(s) blocked on a library lock at quiescence", len(bl))
		return false
	}
	for _, t := range r.Unfinished() {
		r.Violate("stuck-task", "task %d:%s not finished (parked at %s)", t.ID, t.Name, t.ParkLabel())
		return false
	}
	return true
}

// ---------------------------------------------------------------- (memo)

func (c *c16) memo() {
	r := c.r
	kind := r.Choose(11, "memoKind")
	c.stallN = r.Choose(4, "stalls")
	panics := r.Choose(8, "thunkPanics") == 7
	want := 100 + r.Choose(50, "val")
	names := [...]string{"lazy.Call", "lazy.TailCall", "lazy.TailCall1", "lazy.TailCall2", "lazy.TailCall3", "lazy.Memoize", "fp.Memoize", "lazy.Func1", "lazy.Func2", "lazy.Func3", "TailCall->Call"}
	r.Case = "memo"
	if panics {
		r.Case = "memo+panic"
		r.Fault("thunk-panics")
	}
	r.MixFingerprintS(names[kind])
	k := c.counter(names[kind])
	body := func() int {
		c.enter(k)
		defer c.leave(k)
		if panics {
			panic("injected thunk panic")
		}
		return want
	}
	k2 := c.counter("inner lazy.Call")
	var get func() int
	switch kind {
	case 0:
		e := lazy.Call(body)
		get = e.Get
	case 1:
		e := lazy.TailCall(func() lazy.Eval[int] { return lazy.Done(body()) })
		get = e.Get
	case 2:
		e := lazy.TailCall1(func(a int) lazy.Eval[int] { return lazy.Done(body() + a - 1) }, 1)
		get = e.Get
	case 3:
		e := lazy.TailCall2(func(a, b int) lazy.Eval[int] { return lazy.Done(body() + a - b) }, 2, 2)
		get = e.Get
	case 4:
		e := lazy.TailCall3(func(a, b, d int) lazy.Eval[int] { return lazy.Done(body() + a - b - d) }, 3, 2, 1)
		get = e.Get
	case 5:
		get = lazy.Memoize(body)
	case 6:
		m := fp.Memoize(body)
		get = func() int { return m(fp.Unit{}) }
	case 7:
		e := lazy.Func1(func(a int) int { return body() + a - 1 })(1)
		get = e.Get
	case 8:
		e := lazy.Func2(func(a, b int) int { return body() + a - b })(5, 5)
		get = e.Get
	case 9:
		e := lazy.Func3(func(a, b, d int) int { return body() + a - b - d })(5, 3, 2)
		get = e.Get
	default:
		e := lazy.TailCall(func() lazy.Eval[int] {
			v := body()
			return lazy.Call(func() int {
				c.enter(k2)
				defer c.leave(k2)
				return v
			})
		})
		get = e.Get
	}
	nTasks := r.Range(2, 5, "nTasks")
	for i := 0; i < nTasks; i++ {
		reps := r.Range(1, 3, "reps")
		r.Go(fmt.Sprintf("getter%d", i), func(t *sim.Task) {
			for j := 0; j < reps; j++ {
				t.Yield("get")
				func() {
					defer func() {
						if e := recover(); e != nil {
							if !panics {
								r.Violate("get-panic", "Get panicked without an injected fault: %v", e)
							}
						}
					}()
					c.inEval++
					if c.inEval > 1 {
						c.overlap = true
					}
					v := get()
					r.Gate("ret")
					c.inEval--
					if panics {
						return
					}
					if !k.finished {
						r.Violate("returned-early", "Get returned %d before the deferred computation finished", v)
						return
					}
					if v != want {
						r.Violate("wrong-value", "Get returned %d, strict evaluation gives %d", v, want)
					}
				}()
			}
		})
	}
	if !c.quiesce() {
		return
	}
	if k.n != 1 {
		r.Violate("never-run", "deferred computation %s executed %d times although Get was called", k.name, k.n)
	}
}

// ---------------------------------------------------------------- (eval)

type ev struct {
	op   int
	c    int
	kids []*ev
}

const (
	evDone = iota
	evCall
	evTailCall
	evTailCallN
	evMap
	evFlatMap
	evMap2
	evFunc
	evFnMap
	evFnFlatMap
	evZero // the zero-value lazy.Eval[int]{}: documented by Resume as evaluating to the zero value
	evNOps
)

func (c *c16) genEval(depth int, budget *int) *ev {
	r := c.r
	// programs are DAGs, not only trees: an Eval is a value and may be derived from more than once (a.Map(f) and a.Map(g))
	if depth > 0 && len(c.evDone) > 0 && r.Bool(1, 6, "shareSubProgram") {
		r.Probe("sub-programs-used-more-than-once")
		return c.evDone[r.Choose(len(c.evDone), "shared")]
	}
	n := c.genEval1(depth, budget)
	c.evDone = append(c.evDone, n)
	return n
}

func (c *c16) genEval1(depth int, budget *int) *ev {
	r := c.r
	n := &ev{c: 1 + r.Choose(9, "c")}
	*budget--
	if depth >= 9 || *budget <= 0 {
		n.op = []int{evDone, evCall, evZero}[r.Choose(3, "evleaf")]
		return n
	}
	n.op = r.Choose(evNOps, "evop")
	kid := func() *ev { return c.genEval(depth+1, budget) }
	switch n.op {
	case evTailCall, evTailCallN, evMap, evFnMap:
		n.kids = []*ev{kid()}
	case evFlatMap, evMap2, evFnFlatMap:
		n.kids = []*ev{kid(), kid()}
	case evFunc:
		n.c = 1 + r.Choose(3, "funcN")
	}
	return n
}

func (n *ev) write(sb *strings.Builder) {
	names := [...]string{"Done", "Call", "TailCall", "TailCallN", "Map", "FlatMap", "Map2", "Func", "lazy.Map", "lazy.FlatMap", "ZeroEval"}
	fmt.Fprintf(sb, "%s%d", names[n.op], n.c)
	if len(n.kids) > 0 {
		sb.WriteString("(")
		for i, k := range n.kids {
			if i > 0 {
				sb.WriteString(",")
			}
			k.write(sb)
		}
		sb.WriteString(")")
	}
}

const evMod = 1000003

// strict is the reference: direct strict evaluation of the same program.
func (n *ev) strict() int {
	switch n.op {
	case evDone, evCall:
		return n.c
	case evZero:
		return 0
	case evTailCall:
		return n.kids[0].strict()
	case evTailCallN:
		return (n.kids[0].strict() + n.c) % evMod
	case evMap, evFnMap:
		return (n.kids[0].strict()*3 + n.c) % evMod
	case evFlatMap, evFnFlatMap:
		a := n.kids[0].strict()
		b := n.kids[1].strict()
		return (a*7 + b) % evMod
	case evMap2:
		return (n.kids[0].strict()*5 + n.kids[1].strict()*11 + n.c) % evMod
	case evFunc:
		switch n.c {
		case 1:
			return 10
		case 2:
			return 10*2 + 20
		}
		return 10*2 + 20*3 + 30
	}
	panic("strict")
}

// buildEval builds the lazy.Eval of n; while c.collect is set (the build of the root, not the builds that happen later
// inside thunks) every sub-program is remembered together with its strict value: a sub-program is an Eval in its own
// right and may be asked for its value before or after the program it is part of.
func (c *c16) buildEval(n *ev, path string) lazy.Eval[int] {
	if c.collect {
		// a sub-program used more than once is built once: both users derive from the same Eval value
		if e, ok := c.built[n]; ok {
			return e
		}
	}
	e := c.buildEval1(n, path)
	if c.collect {
		if c.built == nil {
			c.built = map[*ev]lazy.Eval[int]{}
		}
		c.built[n] = e
	}
	if c.collect && len(c.subs) < 24 {
		var sb strings.Builder
		n.write(&sb)
		c.subs = append(c.subs, c16sub{e: e, want: n.strict(), desc: sb.String()})
	}
	return e
}

type c16sub struct {
	e    lazy.Eval[int]
	want int
	desc string
}

func (c *c16) buildEval1(n *ev, path string) lazy.Eval[int] {
	switch n.op {
	case evZero:
		return lazy.Eval[int]{}
	case evDone:
		return lazy.Done(n.c)
	case evCall:
		k := c.counter("Call@" + path)
		return lazy.Call(func() int {
			c.enter(k)
			defer c.leave(k)
			return n.c
		})
	case evTailCall:
		k := c.counter("TailCall@" + path)
		return lazy.TailCall(func() lazy.Eval[int] {
			c.enter(k)
			defer c.leave(k)
			return c.buildEval(n.kids[0], path+".0")
		})
	case evTailCallN:
		k := c.counter("TailCallN@" + path)
		add := func(e lazy.Eval[int], d int) lazy.Eval[int] {
			return e.Map(func(v int) int { return (v + d) % evMod })
		}
		// arities 4..9: f computes a1 - sum(i * a_i) over the later arguments (position-weighted, so a permuted argument
		// list shows); the arguments are chosen so that the net addition is n.c like for the small arities
		hi := func(args ...int) lazy.Eval[int] {
			c.enter(k)
			defer c.leave(k)
			d := args[0]
			for i := 1; i < len(args); i++ {
				d -= (i + 1) * args[i]
			}
			return add(c.buildEval(n.kids[0], path+".0"), d)
		}
		switch n.c % 9 {
		case 3:
			return lazy.TailCall4(func(a1, a2, a3, a4 int) lazy.Eval[int] { return hi(a1, a2, a3, a4) }, n.c+2*1+3*2+4*3, 1, 2, 3)
		case 4:
			return lazy.TailCall5(func(a1, a2, a3, a4, a5 int) lazy.Eval[int] { return hi(a1, a2, a3, a4, a5) }, n.c+2*1+3*2+4*3+5*4, 1, 2, 3, 4)
		case 5:
			return lazy.TailCall6(func(a1, a2, a3, a4, a5, a6 int) lazy.Eval[int] { return hi(a1, a2, a3, a4, a5, a6) }, n.c+2*1+3*2+4*3+5*4+6*5, 1, 2, 3, 4, 5)
		case 6:
			return lazy.TailCall7(func(a1, a2, a3, a4, a5, a6, a7 int) lazy.Eval[int] { return hi(a1, a2, a3, a4, a5, a6, a7) }, n.c+2*1+3*2+4*3+5*4+6*5+7*6, 1, 2, 3, 4, 5, 6)
		case 7:
			return lazy.TailCall8(func(a1, a2, a3, a4, a5, a6, a7, a8 int) lazy.Eval[int] { return hi(a1, a2, a3, a4, a5, a6, a7, a8) }, n.c+2*1+3*2+4*3+5*4+6*5+7*6+8*7, 1, 2, 3, 4, 5, 6, 7)
		case 8:
			return lazy.TailCall9(func(a1, a2, a3, a4, a5, a6, a7, a8, a9 int) lazy.Eval[int] {
				return hi(a1, a2, a3, a4, a5, a6, a7, a8, a9)
			}, n.c+2*1+3*2+4*3+5*4+6*5+7*6+8*7+9*8, 1, 2, 3, 4, 5, 6, 7, 8)
		}
		switch n.c % 3 {
		case 0:
			return lazy.TailCall1(func(a int) lazy.Eval[int] {
				c.enter(k)
				defer c.leave(k)
				return add(c.buildEval(n.kids[0], path+".0"), a)
			}, n.c)
		case 1:
			return lazy.TailCall2(func(a, b int) lazy.Eval[int] {
				c.enter(k)
				defer c.leave(k)
				return add(c.buildEval(n.kids[0], path+".0"), a-b)
			}, n.c+5, 5)
		}
		return lazy.TailCall3(func(a, b, d int) lazy.Eval[int] {
			c.enter(k)
			defer c.leave(k)
			return add(c.buildEval(n.kids[0], path+".0"), a-b-d)
		}, n.c+5, 3, 2)
	case evMap:
		return c.buildEval(n.kids[0], path+".0").Map(func(v int) int { return (v*3 + n.c) % evMod })
	case evFnMap:
		return lazy.Map(c.buildEval(n.kids[0], path+".0"), func(v int) int { return (v*3 + n.c) % evMod })
	case evFlatMap, evFnFlatMap:
		a := c.buildEval(n.kids[0], path+".0")
		inst := 0
		k := func(v int) lazy.Eval[int] {
			c.r.Gate("cont")
			inst++
			return c.buildEval(n.kids[1], fmt.Sprintf("%s.1#%d", path, inst)).Map(func(w int) int { return (v*7 + w) % evMod })
		}
		if n.op == evFlatMap {
			return a.FlatMap(k)
		}
		return lazy.FlatMap(a, k)
	case evMap2:
		return lazy.Map2(c.buildEval(n.kids[0], path+".0"), c.buildEval(n.kids[1], path+".1"), func(x, y int) int { return (x*5 + y*11 + n.c) % evMod })
	case evFunc:
		k := c.counter("Func@" + path)
		switch n.c {
		case 1:
			return lazy.Func1(func(a int) int { c.enter(k); defer c.leave(k); return a })(10)
		case 2:
			return lazy.Func2(func(a, b int) int { c.enter(k); defer c.leave(k); return a*2 + b })(10, 20)
		}
		return lazy.Func3(func(a, b, d int) int { c.enter(k); defer c.leave(k); return a*2 + b*3 + d })(10, 20, 30)
	}
	panic("buildEval")
}

// ticketProgram: Map / Map2 functions are not memoised - every evaluation of a program runs them again. A function that
// hands out a fresh ticket per call makes that visible: every evaluation must combine ITS OWN ticket with the (shared,
// memoised) right operand; two overlapping evaluations of the same Eval value must not see each other's intermediate
// values.
// orderProgram: thunks and functions with visible effects. "The same value as direct strict evaluation" includes the
// order in which the deferred computations of ONE evaluation run when they have effects: strict evaluation runs the
// left operand of Map2 before the right one, a sub-program before the function mapped over it, a continuation after
// the program it continues. A random unshared tree whose every thunk / function appends its label to a log is evaluated
// once by one task; the log must equal the log of the strict left-to-right interpreter.
type c16ord struct {
	kind int // 0 Done 1 Call 2 TailCall 3 Map 4 FlatMap 5 Map2 6 lazy.Map 7 lazy.FlatMap 8 Func1
	id   int
	kids []*c16ord
}

func (c *c16) orderProgram() {
	r := c.r
	r.Case = "eval-order"
	next := 0
	var gen func(depth int) *c16ord
	gen = func(depth int) *c16ord {
		next++
		n := &c16ord{id: next}
		k := r.Choose(9, "ordKind")
		if depth >= 4 && k >= 2 {
			k = r.Choose(2, "ordLeaf")
		}
		n.kind = k
		switch k {
		case 2, 3, 6:
			n.kids = []*c16ord{gen(depth + 1)}
		case 4, 5, 7:
			n.kids = []*c16ord{gen(depth + 1), gen(depth + 1)}
		}
		return n
	}
	root := gen(0)
	var log []int
	note := func(id int) { r.Gate("effect"); log = append(log, id) }
	var build func(n *c16ord) lazy.Eval[int]
	build = func(n *c16ord) lazy.Eval[int] {
		switch n.kind {
		case 0:
			return lazy.Done(n.id)
		case 1:
			return lazy.Call(func() int { note(n.id); return n.id })
		case 8:
			return lazy.Func1(func(a int) int { note(n.id); return a })(n.id)
		case 2:
			return lazy.TailCall(func() lazy.Eval[int] { note(n.id); return build(n.kids[0]) })
		case 3:
			return build(n.kids[0]).Map(func(v int) int { note(n.id); return (v*3 + n.id) % evMod })
		case 6:
			return lazy.Map(build(n.kids[0]), func(v int) int { note(n.id); return (v*3 + n.id) % evMod })
		case 4:
			return build(n.kids[0]).FlatMap(func(v int) lazy.Eval[int] {
				note(n.id)
				return build(n.kids[1]).Map(func(w int) int { return (v*5 + w) % evMod })
			})
		case 7:
			return lazy.FlatMap(build(n.kids[0]), func(v int) lazy.Eval[int] {
				note(n.id)
				return lazy.Map(build(n.kids[1]), func(w int) int { return (v*5 + w) % evMod })
			})
		default:
			return lazy.Map2(build(n.kids[0]), build(n.kids[1]), func(a, b int) int { note(n.id); return (a*7 + b) % evMod })
		}
	}
	var want []int
	var strict func(n *c16ord) int
	strict = func(n *c16ord) int {
		switch n.kind {
		case 0:
			return n.id
		case 1, 8:
			want = append(want, n.id)
			return n.id
		case 2:
			want = append(want, n.id)
			return strict(n.kids[0])
		case 3, 6:
			v := strict(n.kids[0])
			want = append(want, n.id)
			return (v*3 + n.id) % evMod
		case 4, 7:
			v := strict(n.kids[0])
			want = append(want, n.id)
			w := strict(n.kids[1])
			return (v*5 + w) % evMod
		default:
			a := strict(n.kids[0])
			b := strict(n.kids[1])
			want = append(want, n.id)
			return (a*7 + b) % evMod
		}
	}
	wantV := strict(root)
	var sb strings.Builder
	var wr func(n *c16ord)
	names := [...]string{"Done", "Call", "TailCall", "Map", "FlatMap", "Map2", "lazy.Map", "lazy.FlatMap", "Func1"}
	wr = func(n *c16ord) {
		fmt.Fprintf(&sb, "%s#%d", names[n.kind], n.id)
		if len(n.kids) > 0 {
			sb.WriteString("(")
			for i, k := range n.kids {
				if i > 0 {
					sb.WriteString(",")
				}
				wr(k)
			}
			sb.WriteString(")")
		}
	}
	wr(root)
	r.MixFingerprintS(sb.String())
	r.Logf("eval-order: %s", sb.String())
	if len(want) >= 2 {
		r.NonTrivial()
	}
	prog := build(root)
	var got int
	r.Go("evaluator", func(t *sim.Task) {
		t.Yield("get")
		got = prog.Get()
		r.Gate("ret")
	})
	if !c.quiesce() {
		return
	}
	if got != wantV {
		r.Violate("wrong-value", "Eval %s evaluated to %d, strict evaluation gives %d", sb.String(), got, wantV)
		return
	}
	if fmt.Sprint(log) != fmt.Sprint(want) {
		r.Violate("wrong-order", "Eval %s ran its thunks and functions in the order %v, strict left-to-right evaluation runs them in the order %v", sb.String(), log, want)
	}
}

func (c *c16) ticketProgram() {
	r := c.r
	r.Case = "eval-tickets"
	c.stallN = 1 + r.Choose(2, "stalls")
	tickets := 0
	k := c.counter("Call@right")
	left := lazy.Done(0).Map(func(int) int { r.Gate("ticket"); tickets++; return tickets })
	right := lazy.Call(func() int { c.enter(k); defer c.leave(k); return 1000 })
	var prog lazy.Eval[int]
	switch r.Choose(3, "ticketShape") {
	case 0:
		prog = lazy.Map2(left, right, func(a, b int) int { return a + b })
	case 1:
		prog = left.FlatMap(func(a int) lazy.Eval[int] { return right.Map(func(b int) int { return a + b }) })
	default:
		prog = lazy.Map2(lazy.Map2(left, right, func(a, b int) int { return a + b }), lazy.Done(0), func(a, b int) int { return a + b })
	}
	n := r.Range(2, 4, "nTasks")
	got := make([]int, n)
	for i := 0; i < n; i++ {
		i := i
		r.Go(fmt.Sprintf("evaluator%d", i), func(t *sim.Task) {
			t.Yield("get")
			c.inEval++
			if c.inEval > 1 {
				c.overlap = true
			}
			v := prog.Get()
			r.Gate("ret")
			c.inEval--
			got[i] = v
		})
	}
	if !c.quiesce() {
		return
	}
	seen := map[int]bool{}
	for i, v := range got {
		tk := v - 1000
		if tk < 1 || tk > tickets || seen[tk] {
			r.Violate("wrong-value", "%d evaluations of one Eval (a ticket-drawing Map function combined with a memoised Call) returned %v: evaluation %d does not carry a ticket of its own (tickets 1..%d were drawn)", n, got, i, tickets)
			return
		}
		seen[tk] = true
	}
}

func (c *c16) evalTree() {
	r := c.r
	if r.Bool(1, 10, "ticketProgram") {
		c.ticketProgram()
		return
	}
	if r.Bool(1, 8, "orderProgram") {
		c.orderProgram()
		return
	}
	budget := r.Range(1, 40, "evsize")
	root := c.genEval(0, &budget)
	var sb strings.Builder
	root.write(&sb)
	r.MixFingerprintS(sb.String())
	r.Logf("eval: %s", sb.String())
	want := root.strict()
	nTasks := r.Range(1, 4, "nTasks")
	c.stallN = 0
	if nTasks > 1 {
		c.stallN = r.Choose(3, "stalls")
		r.Case = "eval-shared"
	} else {
		r.Case = "eval-single"
	}
	c.collect = true
	e := c.buildEval(root, "r")
	c.collect = false
	for i := 0; i < nTasks; i++ {
		reps := r.Range(1, 2, "reps")
		// some evaluators also ask sub-programs (Evals the root was derived from) for their value, before or after the root
		var mine []c16sub
		subFirst := false
		if len(c.subs) > 1 && r.Bool(1, 3, "alsoSubPrograms") {
			for k := r.Range(1, 2, "nSubs"); k > 0; k-- {
				mine = append(mine, c.subs[r.Choose(len(c.subs)-1, "sub")]) // the last one is the root itself
			}
			subFirst = r.Choose(2, "subFirst") == 1
		}
		askSubs := func(t *sim.Task) {
			for _, sp := range mine {
				t.Yield("get-sub")
				c.inEval++
				v := sp.e.Get()
				r.Gate("ret")
				c.inEval--
				r.Probe("sub-programs-evaluated")
				if v != sp.want {
					r.Violate("wrong-value", "sub-program %s of Eval %s evaluated to %d, strict evaluation gives %d", sp.desc, sb.String(), v, sp.want)
					return
				}
			}
		}
		r.Go(fmt.Sprintf("evaluator%d", i), func(t *sim.Task) {
			defer func() {
				if p := recover(); p != nil {
					r.Violate("get-panic", "Get of a sub-program panicked: %v", p)
				}
			}()
			if subFirst {
				askSubs(t)
			}
			defer func() {
				if !subFirst && !r.Failed() {
					askSubs(t)
				}
			}()
			for j := 0; j < reps; j++ {
				t.Yield("get")
				func() {
					defer func() {
						if p := recover(); p != nil {
							r.Violate("get-panic", "Get panicked: %v", p)
						}
					}()
					c.inEval++
					if c.inEval > 1 {
						c.overlap = true
					}
					var v int
					if j%2 == 0 {
						v = e.Get()
					} else {
						v = lazy.Run(e)
					}
					r.Gate("ret")
					c.inEval--
					if v != want {
						r.Violate("wrong-value", "Eval %s evaluated to %d, strict evaluation gives %d", sb.String(), v, want)
					}
				}()
			}
		})
	}
	c.quiesce()
}

// ---------------------------------------------------------------- (list)

func (c *c16) listCells() {
	r := c.r
	r.Case = "list"
	kind := r.Choose(21, "listKind")
	n := r.Range(1, 6, "listLen")
	c.stallN = r.Choose(3, "stalls")
	names := [...]string{"fp.MakeList", "list.Generate", "list.GenerateFrom", "list.Recurrence1", "list.Recurrence2", "list.Map", "list.Zip", "list.Scan", "list.Collect", "iterator.ToList", "list.FlatMap",
		"list.Zip3", "list.ZipWithIndex", "list.Combine", "list.Concat", "list.FromSeq/FromSlice/ReverseSeq/ReverseSlice", "list.Ap", "list.Flatten", "list.FilterMap", "list.Map2", "fp.MakeList (tail computed from the node's own head)"}
	r.MixFingerprintS(names[kind])
	r.MixFingerprint(uint64(n))
	want := make([]int, n)
	var l fp.List[int]
	per := func(prefix string) []*c16counter {
		ks := make([]*c16counter, n+2)
		for i := range ks {
			ks[i] = c.counter(fmt.Sprintf("%s[%d]", prefix, i))
		}
		return ks
	}
	counted := func(k *c16counter, v int) int {
		c.enter(k)
		defer c.leave(k)
		return v
	}
	switch kind {
	case 10:
		// list.FlatMap applies fn to the head element of the list it was given inside one deferred computation shared by
		// the head and the tail cell of the result. (The sub-lists FlatMap(tail, fn) are re-instantiated by design, so
		// only the application to the FIRST element is a single deferred computation instance.)
		first := c.counter("fn(first element)")
		base := make([]int, n)
		want = want[:0]
		for i := range base {
			base[i] = 10 + i
			want = append(want, base[i], base[i]+100)
		}
		l = list.FlatMap(list.Of(base...), func(v int) fp.List[int] {
			r.Gate("fn")
			if v == base[0] {
				counted(first, 0)
			}
			return list.Of(v, v+100)
		})
	case 20:
		// the natural "iterate": the tail thunk of a node reads that node's own head (and the head thunk of the last
		// node looks at nothing else) - head and tail of one node are independent deferred computations
		hk, tk := per("head"), per("tail")
		var mk func(i, v int) fp.List[int]
		mk = func(i, v int) fp.List[int] {
			var self fp.List[int]
			self = fp.MakeList(func() fp.Option[int] {
				c.enter(hk[i])
				defer c.leave(hk[i])
				if i >= n {
					return fp.None[int]()
				}
				return fp.Some(v)
			}, func() fp.List[int] {
				c.enter(tk[i])
				defer c.leave(tk[i])
				if i >= n {
					return list.Empty[int]()
				}
				return mk(i+1, self.Head()+3)
			})
			return self
		}
		l = mk(0, 10)
		for i := range want {
			want[i] = 10 + 3*i
		}
	case 11, 12, 13, 14, 15, 16, 17, 18, 19:
		// the remaining constructors of package list that build memoised cells or defer a callback
		cgen := func(prefix string, m, base int) fp.List[int] {
			ks := per(prefix)
			return list.Generate(func(i int) fp.Option[int] {
				r.Gate("gen")
				if i < 0 || i > m {
					r.Violate("generator-index", "generator %s called with index %d (length %d)", prefix, i, m)
					return fp.None[int]()
				}
				if i == m {
					return fp.None[int]()
				}
				return fp.Some(counted(ks[i], base+i))
			})
		}
		switch kind {
		case 11:
			a, b := cgen("genA", n, 0), cgen("genB", n+1, 50)
			base := make([]int, n)
			for i := range base {
				base[i] = 7 * i
				want[i] = i*1000000 + 7*i*1000 + 50 + i
			}
			l = list.Map(list.Zip3(a, list.Of(base...), b), func(t fp.Tuple3[int, int, int]) int { return t.I1*1000000 + t.I2*1000 + t.I3 })
		case 12:
			l = list.Map(list.ZipWithIndex(cgen("gen", n, 30)), func(t fp.Tuple2[int, int]) int { return t.I1*1000 + t.I2 })
			for i := range want {
				want[i] = i*1000 + 30 + i
			}
		case 13:
			n1 := r.Choose(n+1, "combineSplit")
			l = list.Combine(cgen("genA", n1, 10), cgen("genB", n-n1, 500))
			for i := range want {
				if i < n1 {
					want[i] = 10 + i
				} else {
					want[i] = 500 + i - n1
				}
			}
		case 14:
			if r.Choose(2, "concatKind") == 0 {
				l = list.Concat(7, cgen("gen", n-1, 20))
			} else {
				l = list.Apply(7, cgen("gen", n-1, 20))
			}
			want[0] = 7
			for i := 1; i < n; i++ {
				want[i] = 20 + i - 1
			}
		case 15:
			ks := per("fn")
			base := make([]int, n)
			for i := range base {
				base[i] = i
			}
			var src fp.List[int]
			rev := false
			switch r.Choose(4, "fromKind") {
			case 0:
				src = list.FromSeq(fp.Seq[int](base))
			case 1:
				src = list.FromSlice(base)
			case 2:
				src, rev = list.ReverseSeq(fp.Seq[int](base)), true
			default:
				src, rev = list.ReverseSlice(base), true
			}
			for i := range want {
				want[i] = i * 3
				if rev {
					want[i] = (n - 1 - i) * 3
				}
			}
			l = list.Map(src, func(v int) int { return counted(ks[v], v*3) })
		case 16:
			ks := per("fn")
			f := fp.Func1[int, int](func(v int) int { return counted(ks[v-40], v*2) })
			l = list.Ap(list.Of(f), cgen("gen", n, 40))
			for i := range want {
				want[i] = (40 + i) * 2
			}
		case 17:
			n1 := r.Choose(n+1, "flattenSplit")
			l = list.Flatten(list.Of(cgen("genA", n1, 10), list.Empty[int](), cgen("genB", n-n1, 500)))
			for i := range want {
				if i < n1 {
					want[i] = 10 + i
				} else {
					want[i] = 500 + i - n1
				}
			}
		case 18:
			first := c.counter("fn(first element)")
			base := make([]int, 2*n)
			for i := range base {
				base[i] = i
			}
			for i := range want {
				want[i] = 2*i + 100
			}
			l = list.FilterMap(list.Of(base...), func(v int) fp.Option[int] {
				r.Gate("fn")
				if v == 0 {
					counted(first, 0)
				}
				if v%2 == 1 {
					return fp.None[int]()
				}
				return fp.Some(v + 100)
			})
		default:
			ks := per("fn")
			l = list.Map2(list.Of(9), cgen("gen", n, 60), func(a, b int) int { return counted(ks[b-60], a*1000+b) })
			for i := range want {
				want[i] = 9000 + 60 + i
			}
		}
	case 0:
		hk, tk := per("head"), per("tail")
		var mk func(i int) fp.List[int]
		mk = func(i int) fp.List[int] {
			return fp.MakeList(func() fp.Option[int] {
				c.enter(hk[i])
				defer c.leave(hk[i])
				if i >= n {
					return fp.None[int]()
				}
				return fp.Some(10 + i)
			}, func() fp.List[int] {
				c.enter(tk[i])
				defer c.leave(tk[i])
				if i >= n {
					return list.Empty[int]()
				}
				return mk(i + 1)
			})
		}
		l = mk(0)
		for i := range want {
			want[i] = 10 + i
		}
	case 1, 2:
		ks := per("gen")
		start := 0
		gen := func(idx int) fp.Option[int] {
			r.Gate("gen")
			i := idx - start
			if i < 0 || i > n {
				r.Violate("generator-index", "generator called with index %d", idx)
				return fp.None[int]()
			}
			if i == n {
				return fp.None[int]()
			}
			return fp.Some(counted(ks[i], 10+idx))
		}
		if kind == 1 {
			l = list.Generate(gen)
		} else {
			start = 5
			l = list.GenerateFrom(5, gen)
		}
		for i := range want {
			want[i] = 10 + start + i
		}
	case 3:
		ks := per("rel")
		inf := list.Recurrence1(1, func(a int) int {
			r.Gate("rel")
			if a > n+1 {
				return a + 1
			}
			return counted(ks[a], a+1)
		})
		l = c16Take(r, inf, n)
		for i := range want {
			want[i] = 1 + i
		}
	case 4:
		ks := per("rel")
		inf := list.Recurrence2(0, 1, func(a, b int) int {
			r.Gate("rel")
			if b > n+1 {
				return b + 1
			}
			return counted(ks[b], b+1)
		})
		l = c16Take(r, inf, n)
		for i := range want {
			want[i] = i
		}
	case 5:
		ks := per("fn")
		base := make([]int, n)
		for i := range base {
			base[i] = i
			want[i] = i * 3
		}
		l = list.Map(list.Of(base...), func(v int) int { return counted(ks[v], v*3) })
	case 6:
		ks := per("gen")
		a := list.Generate(func(i int) fp.Option[int] {
			r.Gate("gen")
			if i >= n {
				return fp.None[int]()
			}
			return fp.Some(counted(ks[i], i))
		})
		base := make([]int, n)
		for i := range base {
			base[i] = 100 + i
			want[i] = i*1000 + 100 + i
		}
		l = list.Map(list.Zip(a, list.Of(base...)), func(t fp.Tuple2[int, int]) int { return t.I1*1000 + t.I2 })
	case 7:
		ks := per("scanf")
		base := make([]int, n)
		for i := range base {
			base[i] = i + 1
		}
		sc := list.Scan(list.Of(base...), 0, func(acc, v int) int { return counted(ks[v], acc+v) })
		l = sc
		want = make([]int, n+1)
		for i := 1; i <= n; i++ {
			want[i] = want[i-1] + i
		}
	default:
		ks := per("pull")
		i := 0
		src := fp.MakeIterator(func() bool { r.Gate("hasNext"); return i < n }, func() int {
			r.Gate("next")
			if i >= n {
				panic("next on empty source")
			}
			v := counted(ks[i], 10+i)
			i++
			return v
		})
		if kind == 8 {
			l = list.Collect(src)
		} else {
			l = iterator.ToList(src)
		}
		for j := range want {
			want[j] = 10 + j
		}
	}
	nTasks := r.Range(2, 4, "nTasks")
	for i := 0; i < nTasks; i++ {
		mode := r.Choose(5, "travMode")
		r.Go(fmt.Sprintf("walker%d", i), func(t *sim.Task) {
			defer func() {
				if p := recover(); p != nil {
					r.Violate("list-panic", "traversal panicked: %v", p)
				}
			}()
			c.inEval++
			if c.inEval > 1 {
				c.overlap = true
			}
			var got []int
			switch mode {
			case 0:
				got = l.ToSeq()
			case 1:
				cur := l
				for cur.NonEmpty() {
					t.Yield("cell")
					h, tl := cur.Unapply()
					r.Gate("ret")
					got = append(got, h)
					cur = tl
				}
			case 2:
				cur := l
				for !cur.IsEmpty() {
					got = append(got, cur.Head())
					t.Yield("cell")
					got[len(got)-1] = cur.Head() // repeated Head must not re-run anything
					cur = cur.Tail()
					r.Gate("ret")
				}
			case 3:
				// drop-style access: walk the spine with Tail only (the caller knows the length), then read the
				// heads of the retained cells - the tail thunk of a cell runs while nobody has asked for its head
				cells := make([]fp.List[int], 0, len(want))
				cur := l
				for range want {
					cells = append(cells, cur)
					t.Yield("cell")
					cur = cur.Tail()
					r.Gate("ret")
				}
				if !cur.IsEmpty() {
					r.Gate("ret")
					r.Violate("wrong-value", "%s: the list is longer than the %d elements strict evaluation gives", names[kind], len(want))
					return
				}
				r.Gate("ret")
				for _, cl := range cells {
					t.Yield("cell")
					got = append(got, cl.Head())
					r.Gate("ret")
				}
			default:
				// per cell: Tail before Head
				cur := l
				for range want {
					t.Yield("cell")
					nx := cur.Tail()
					r.Gate("ret")
					t.Yield("cell")
					got = append(got, cur.Head())
					r.Gate("ret")
					cur = nx
				}
			}
			r.Gate("ret")
			c.inEval--
			if fmt.Sprint(got) != fmt.Sprint(want) {
				r.Violate("wrong-value", "%s: traversal saw %v, strict evaluation gives %v", names[kind], got, want)
			}
		})
	}
	c.quiesce()
}

func c16Take(r *sim.Run, l fp.List[int], n int) fp.List[int] {
	i := 0
	var mk func(cur fp.List[int], i int) fp.List[int]
	mk = func(cur fp.List[int], i int) fp.List[int] {
		if i >= n {
			return list.Empty[int]()
		}
		return fp.MakeList(func() fp.Option[int] { r.Gate("take"); return fp.Some(cur.Head()) }, func() fp.List[int] { r.Gate("take"); return mk(cur.Tail(), i+1) })
	}
	return mk(l, i)
}

// ---------------------------------------------------------------- (tailrec)

func (c *c16) tailRec() {
	r := c.r
	r.Case = "tailrec"
	maxDepth := 1000000
	if sim.Thorough {
		maxDepth = 20000000
	}
	// depth: a few fixed magnitudes plus a seeded one
	depth := []int{1000, 100000, maxDepth / 4, maxDepth}[r.Choose(4, "depthClass")] + r.Choose(1000, "depthJitter")
	prog := r.Choose(9, "prog")
	if lim := map[bool]int{false: 300000, true: 2000000}[sim.Thorough]; prog >= 6 && depth > lim {
		depth = lim + depth%1000 // the FoldRight programs materialise their input (and list cells are slow)
	}
	r.MixFingerprint(uint64(depth)<<4 | uint64(prog))
	r.Fault("stack-limit-8MB")
	sim.NoteCase(fmt.Sprintf("C16 tailrec prog=%d depth=%d", prog, depth))
	var got, want int
	want = depth % evMod
	switch prog {
	case 0:
		var loop func(n, acc int) lazy.Eval[int]
		loop = func(n, acc int) lazy.Eval[int] {
			if n == 0 {
				return lazy.Done(acc)
			}
			return lazy.TailCall(func() lazy.Eval[int] { return loop(n-1, (acc+1)%evMod) })
		}
		got = loop(depth, 0).Get()
	case 1:
		var loop func(n int) lazy.Eval[int]
		acc := 0
		loop = func(n int) lazy.Eval[int] {
			if n == 0 {
				return lazy.Done(acc)
			}
			acc = (acc + 1) % evMod
			return lazy.TailCall1(loop, n-1)
		}
		got = loop(depth).Get()
	case 2:
		var loop func(n, acc int) lazy.Eval[int]
		loop = func(n, acc int) lazy.Eval[int] {
			if n == 0 {
				return lazy.Done(acc)
			}
			return lazy.TailCall2(loop, n-1, (acc+1)%evMod)
		}
		got = loop(depth, 0).Get()
	case 3:
		var loop func(n, acc, one int) lazy.Eval[int]
		loop = func(n, acc, one int) lazy.Eval[int] {
			if n == 0 {
				return lazy.Done(acc)
			}
			return lazy.TailCall3(loop, n-1, (acc+one)%evMod, one)
		}
		got = loop(depth, 0, 1).Get()
	case 4: // mutual recursion
		var even, odd func(n int) lazy.Eval[int]
		even = func(n int) lazy.Eval[int] {
			if n == 0 {
				return lazy.Done(1)
			}
			return lazy.TailCall1(odd, n-1)
		}
		odd = func(n int) lazy.Eval[int] {
			if n == 0 {
				return lazy.Done(0)
			}
			return lazy.TailCall1(even, n-1)
		}
		got = even(depth).Get()
		want = 1 - depth%2
	case 6, 7, 8:
		// FoldRight whose step hands the rest of the fold back unchanged (last / find style): the rest is a
		// lazy.TailCall inside FoldRight, so the fold is a tail-recursive TailCall program over the input length
		last := func(a int, rest lazy.Eval[int]) lazy.Eval[int] {
			if a == depth-1 {
				return lazy.Done(a % evMod)
			}
			return rest
		}
		want = (depth - 1) % evMod
		switch prog {
		case 6:
			xs := make([]int, depth)
			for i := range xs {
				xs[i] = i
			}
			got = seq.FoldRight(fp.Seq[int](xs), -1, last).Get()
		case 7:
			got = iterator.FoldRight(iterator.Range(0, depth), -1, last).Get()
		default:
			got = list.FoldRight(list.Range(0, depth), -1, last).Get()
		}
	default: // tail call whose result is post-processed once (Map at the outside only)
		var loop func(n, acc int) lazy.Eval[int]
		loop = func(n, acc int) lazy.Eval[int] {
			if n == 0 {
				return lazy.Done(acc)
			}
			return lazy.TailCall(func() lazy.Eval[int] { return loop(n-1, (acc+1)%evMod) })
		}
		got = lazy.Run(loop(depth, 0).Map(func(v int) int { return v }))
	}
	if got != want {
		r.Violate("wrong-value", "tail-recursive program %d at depth %d returned %d, want %d", prog, depth, got, want)
	}
	// FoldRight chains that post-process the rest with Map (moderate depth, value check only: those are not tail recursive)
	m := 200 + r.Choose(800, "foldN")
	xs := make([]int, m)
	sum := 0
	for i := range xs {
		xs[i] = i
		sum += i
	}
	add := func(a int, acc lazy.Eval[int]) lazy.Eval[int] { return acc.Map(func(b int) int { return a + b }) }
	if v := seq.FoldRight(fp.Seq[int](xs), 0, add).Get(); v != sum {
		r.Violate("wrong-value", "seq.FoldRight over %d elements returned %d, want %d", m, v, sum)
	}
	if v := iterator.FoldRight(iterator.FromSlice(xs), 0, add).Get(); v != sum {
		r.Violate("wrong-value", "iterator.FoldRight over %d elements returned %d, want %d", m, v, sum)
	}
	if v := list.FoldRight(list.Of(xs...), 0, add).Get(); v != sum {
		r.Violate("wrong-value", "list.FoldRight over %d elements returned %d, want %d", m, v, sum)
	}
	// programs over nilable result types whose value is nil (an Eval[T] is generic: a nil error / any / pointer / slice is a value)
	func() {
		defer func() {
			if p := recover(); p != nil {
				r.Violate("get-panic", "an Eval whose value is a nil error / any / pointer / slice panicked in Get: %v", p)
			}
		}()
		e1 := lazy.Call(func() error { return nil })
		e2 := lazy.Func1(func(int) any { return nil })(1)
		e3 := lazy.TailCall(func() lazy.Eval[*int] { return lazy.Done[*int](nil) })
		e4 := lazy.Call(func() []int { return nil }).Map(func(s []int) []int { return s })
		e5 := lazy.Map2(lazy.Call(func() error { return nil }), lazy.Done[error](nil), func(a, b error) error { return a })
		for rep := 0; rep < 2; rep++ {
			if e1.Get() != nil || e2.Get() != nil || e3.Get() != nil || e4.Get() != nil || e5.Get() != nil {
				r.Violate("wrong-value", "an Eval whose value is nil evaluated to a non-nil value")
				return
			}
		}
		r.Probe("nil-valued-programs")
	}()
	if r.Failed() {
		return
	}
	// the deferred rest of a fold is a deferred computation like any other: asking the same fold twice, or using the
	// rest twice inside one step, must neither change the value nor run a step (= pull the read-once source) again
	n := 2 + r.Choose(11, "foldTwiceN")
	ys := xs[:n]
	twice := func(a int, rest lazy.Eval[int]) lazy.Eval[int] {
		return lazy.Map2(rest, rest, func(x, y int) int { return (a + x + 2*y) % evMod })
	}
	wantTwice := 0
	for i := n - 1; i >= 0; i-- {
		wantTwice = (ys[i] + 3*wantTwice) % evMod
	}
	for variant := 0; variant < 2; variant++ {
		step, want, what := add, n*(n-1)/2, "rest used once"
		if variant == 1 {
			step, want, what = twice, wantTwice, "rest used twice per step"
		}
		pulls, i := 0, 0
		src := fp.MakeIterator(func() bool { return i < n }, func() int {
			if i >= n {
				panic("next on the exhausted source")
			}
			pulls++
			v := ys[i]
			i++
			return v
		})
		folds := []struct {
			name string
			e    lazy.Eval[int]
		}{
			{"seq.FoldRight", seq.FoldRight(fp.Seq[int](ys), 0, step)},
			{"iterator.FoldRight", iterator.FoldRight(src, 0, step)},
			{"list.FoldRight", list.FoldRight(list.Of(ys...), 0, step)},
		}
		for _, f := range folds {
			var v1, v2 int
			var pan any
			func() {
				defer func() { pan = recover() }()
				v1 = f.e.Get()
				v2 = lazy.Run(f.e)
			}()
			r.Probe("folds-evaluated-twice")
			if pan != nil {
				r.Violate("fold-rerun", "%s over %v (%s): asking the same fold twice panicked: %v", f.name, ys, what, pan)
				return
			}
			if v1 != want || v2 != want {
				r.Violate("fold-rerun", "%s over %v (%s): first Get gives %d, second evaluation gives %d, strict evaluation gives %d", f.name, ys, what, v1, v2, want)
				return
			}
		}
		if pulls != n {
			r.Violate("fold-rerun", "iterator.FoldRight over %d elements (%s, asked twice) pulled its read-once source %d times", n, what, pulls)
			return
		}
	}
}
