package props

import (
	"errors"
	"fmt"
	"strings"

	"github.com/csgura/fp"
	"github.com/csgura/fp/either"
	"github.com/csgura/fp/future"
	"github.com/csgura/fp/iterator"
	"github.com/csgura/fp/try"
	"verif/harness/sim"
)

// ---------------------------------------------------------------- Recover* / Or* / OrElse*

type recEnv struct {
	e1, e2   error
	calls    int  // handler invocations
	defCalls int  // isDefinedAt invocations
	gotOwn   bool // every handler that receives an error received the receiver's own error
	hFail    bool // handler returns a failure
	defined  bool // isDefinedAt answer
	recvRuns int  // executions of a StateT receiver (a step positioned before the handler: exactly one per Eval)
}

func (k *recEnv) tag(err error) string {
	switch {
	case errors.Is(err, k.e1):
		return "E1"
	case errors.Is(err, k.e2):
		return "E2"
	}
	return "unknown:" + firstLineOf(err.Error())
}

func (k *recEnv) tryStr(t fp.Try[int]) string {
	if bad := tryViewsDisagree(t); bad != "" {
		return "inconsistent Try: " + bad
	}
	if t.IsSuccess() {
		return fmt.Sprintf("S(%d)", t.Get())
	}
	return "F(" + k.tag(t.Failed().Get()) + ")"
}

func (k *recEnv) h(err error) {
	k.calls++
	if !errors.Is(err, k.e1) {
		k.gotOwn = false
	}
}
func (k *recEnv) isDef(err error) bool {
	k.defCalls++
	if !errors.Is(err, k.e1) {
		k.gotOwn = false
	}
	return k.defined
}
func (k *recEnv) hTry() fp.Try[int] {
	if k.hFail {
		return fp.Failure[int](k.e2)
	}
	return fp.Success(99)
}
func (k *recEnv) hTryS() string {
	if k.hFail {
		return "F(E2)"
	}
	return "S(99)"
}
func optStr(o fp.Option[int]) string {
	if o.IsDefined() {
		return fmt.Sprintf("Some(%d)", o.Get())
	}
	return "None"
}

type recCase struct {
	name string
	// run applies the operation to a succeeded (succ) or failed receiver; want is the expected
	// printed result for the failed receiver (the succeeded receiver must pass through as passS)
	run      func(k *recEnv, succ bool) string
	passS    string
	wantF    func(k *recEnv) string
	callsF   func(k *recEnv) int // handler calls expected on failure
	usesDef  bool
	noHandle bool // no handler callback at all
}

func recvTry(k *recEnv, succ bool) fp.Try[int] {
	if succ {
		return fp.Success(42)
	}
	return fp.Failure[int](k.e1)
}
func recvOpt(succ bool) fp.Option[int] {
	if succ {
		return fp.Some(42)
	}
	return fp.None[int]()
}
func recvEither(succ bool) fp.Either[int, int] {
	if succ {
		return fp.Right[int, int](42)
	}
	return fp.Left[int, int](1)
}
func recvStateT(k *recEnv, succ bool) fp.StateT[int, int] {
	return func(s int) (fp.Try[int], int) { k.recvRuns++; return recvTry(k, succ), s + 1 }
}
func one(*recEnv) int { return 1 }
func ifDefined(k *recEnv) int {
	if k.defined {
		return 1
	}
	return 0
}

var recCases = []recCase{
	{name: "Try.Recover", passS: "S(42)", run: func(k *recEnv, s bool) string {
		return k.tryStr(recvTry(k, s).Recover(func(err error) int { k.h(err); return 99 }))
	}, wantF: func(k *recEnv) string { return "S(99)" }, callsF: one},
	{name: "Try.RecoverWith", passS: "S(42)", run: func(k *recEnv, s bool) string {
		return k.tryStr(recvTry(k, s).RecoverWith(func(err error) fp.Try[int] { k.h(err); return k.hTry() }))
	}, wantF: (*recEnv).hTryS, callsF: one},
	{name: "Try.RecoverCase", passS: "S(42)", usesDef: true, run: func(k *recEnv, s bool) string {
		return k.tryStr(recvTry(k, s).RecoverCase(k.isDef, func(err error) int { k.h(err); return 99 }))
	}, wantF: func(k *recEnv) string {
		if k.defined {
			return "S(99)"
		}
		return "F(E1)"
	}, callsF: ifDefined},
	{name: "Try.RecoverCaseWith", passS: "S(42)", usesDef: true, run: func(k *recEnv, s bool) string {
		return k.tryStr(recvTry(k, s).RecoverCaseWith(k.isDef, func(err error) fp.Try[int] { k.h(err); return k.hTry() }))
	}, wantF: func(k *recEnv) string {
		if k.defined {
			return k.hTryS()
		}
		return "F(E1)"
	}, callsF: ifDefined},
	{name: "Try.Or", passS: "S(42)", run: func(k *recEnv, s bool) string {
		return k.tryStr(recvTry(k, s).Or(func() fp.Try[int] { k.calls++; return k.hTry() }))
	}, wantF: (*recEnv).hTryS, callsF: one},
	{name: "Try.OrTry", passS: "S(42)", noHandle: true, run: func(k *recEnv, s bool) string {
		return k.tryStr(recvTry(k, s).OrTry(k.hTry()))
	}, wantF: (*recEnv).hTryS},
	{name: "Try.OrElse", passS: "42", noHandle: true, run: func(k *recEnv, s bool) string {
		return fmt.Sprint(recvTry(k, s).OrElse(7))
	}, wantF: func(*recEnv) string { return "7" }},
	{name: "Try.OrZero", passS: "42", noHandle: true, run: func(k *recEnv, s bool) string {
		return fmt.Sprint(recvTry(k, s).OrZero())
	}, wantF: func(*recEnv) string { return "0" }},
	{name: "Try.OrElseGet", passS: "42", run: func(k *recEnv, s bool) string {
		return fmt.Sprint(recvTry(k, s).OrElseGet(func() int { k.calls++; return 7 }))
	}, wantF: func(*recEnv) string { return "7" }, callsF: one},
	{name: "Try.Failed", passS: "F(lib)", noHandle: true, run: func(k *recEnv, s bool) string {
		f := recvTry(k, s).Failed()
		if f.IsSuccess() {
			return "S(" + k.tag(f.Get()) + ")"
		}
		if errors.Is(f.Failed().Get(), fp.ErrTryNotFailed) {
			return "F(lib)"
		}
		return "F(?)"
	}, wantF: func(*recEnv) string { return "S(E1)" }},
	{name: "Try.MapError", passS: "S(42)", run: func(k *recEnv, s bool) string {
		return k.tryStr(recvTry(k, s).MapError(func(err error) error { k.h(err); return k.e2 }))
	}, wantF: func(*recEnv) string { return "F(E2)" }, callsF: one},

	{name: "Option.OrElse", passS: "42", noHandle: true, run: func(k *recEnv, s bool) string { return fmt.Sprint(recvOpt(s).OrElse(7)) }, wantF: func(*recEnv) string { return "7" }},
	{name: "Option.OrZero", passS: "42", noHandle: true, run: func(k *recEnv, s bool) string { return fmt.Sprint(recvOpt(s).OrZero()) }, wantF: func(*recEnv) string { return "0" }},
	{name: "Option.OrElseGet", passS: "42", run: func(k *recEnv, s bool) string {
		return fmt.Sprint(recvOpt(s).OrElseGet(func() int { k.calls++; return 7 }))
	}, wantF: func(*recEnv) string { return "7" }, callsF: one},
	{name: "Option.Or", passS: "Some(42)", run: func(k *recEnv, s bool) string {
		return optStr(recvOpt(s).Or(func() fp.Option[int] {
			k.calls++
			if k.hFail {
				return fp.None[int]()
			}
			return fp.Some(99)
		}))
	}, wantF: func(k *recEnv) string {
		if k.hFail {
			return "None"
		}
		return "Some(99)"
	}, callsF: one},
	{name: "Option.OrOption", passS: "Some(42)", noHandle: true, run: func(k *recEnv, s bool) string {
		alt := fp.Some(99)
		if k.hFail {
			alt = fp.None[int]()
		}
		return optStr(recvOpt(s).OrOption(alt))
	}, wantF: func(k *recEnv) string {
		if k.hFail {
			return "None"
		}
		return "Some(99)"
	}},
	{name: "Option.OrPtr", passS: "Some(42)", noHandle: true, run: func(k *recEnv, s bool) string {
		v := 99
		p := &v
		if k.hFail {
			p = nil
		}
		return optStr(recvOpt(s).OrPtr(p))
	}, wantF: func(k *recEnv) string {
		if k.hFail {
			return "None"
		}
		return "Some(99)"
	}},
	{name: "Option.Recover", passS: "Some(42)", run: func(k *recEnv, s bool) string {
		return optStr(recvOpt(s).Recover(func() int { k.calls++; return 99 }))
	}, wantF: func(*recEnv) string { return "Some(99)" }, callsF: one},

	{name: "Either.Recover", passS: "Right(42)", run: func(k *recEnv, s bool) string {
		x := recvEither(s).Recover(func() int { k.calls++; return 99 })
		if x.IsRight() {
			return fmt.Sprintf("Right(%d)", x.Get())
		}
		return fmt.Sprintf("Left(%d)", x.Left())
	}, wantF: func(*recEnv) string { return "Right(99)" }, callsF: one},
	{name: "either.OrElse", passS: "42", noHandle: true, run: func(k *recEnv, s bool) string { return fmt.Sprint(either.OrElse(recvEither(s), 7)) }, wantF: func(*recEnv) string { return "7" }},
	{name: "either.OrElseGet", passS: "42", run: func(k *recEnv, s bool) string {
		return fmt.Sprint(either.OrElseGet(recvEither(s), func() int { k.calls++; return 7 }))
	}, wantF: func(*recEnv) string { return "7" }, callsF: one},

	{name: "StateT.Recover", passS: "S(42)", run: func(k *recEnv, s bool) string {
		return k.tryStr(recvStateT(k, s).Recover(func(err error) int { k.h(err); return 99 }).Eval(0))
	}, wantF: func(*recEnv) string { return "S(99)" }, callsF: one},
	{name: "StateT.RecoverT", passS: "S(42)", run: func(k *recEnv, s bool) string {
		return k.tryStr(recvStateT(k, s).RecoverT(func(err error) fp.Try[int] { k.h(err); return k.hTry() }).Eval(0))
	}, wantF: (*recEnv).hTryS, callsF: one},
	{name: "StateT.RecoverWithState", passS: "S(42)", run: func(k *recEnv, s bool) string {
		return k.tryStr(recvStateT(k, s).RecoverWithState(func(_ int, err error) int { k.h(err); return 99 }).Eval(0))
	}, wantF: func(*recEnv) string { return "S(99)" }, callsF: one},
	{name: "StateT.RecoverWithStateT", passS: "S(42)", run: func(k *recEnv, s bool) string {
		return k.tryStr(recvStateT(k, s).RecoverWithStateT(func(_ int, err error) fp.Try[int] { k.h(err); return k.hTry() }).Eval(0))
	}, wantF: (*recEnv).hTryS, callsF: one},
	{name: "StateT.RecoverWith", passS: "S(42)", run: func(k *recEnv, s bool) string {
		return k.tryStr(recvStateT(k, s).RecoverWith(func(err error) fp.StateT[int, int] {
			k.h(err)
			return func(st int) (fp.Try[int], int) { return k.hTry(), st }
		}).Eval(0))
	}, wantF: (*recEnv).hTryS, callsF: one},
	{name: "StateT.RecoverCase", passS: "S(42)", usesDef: true, run: func(k *recEnv, s bool) string {
		return k.tryStr(recvStateT(k, s).RecoverCase(k.isDef, func(err error) int { k.h(err); return 99 }).Eval(0))
	}, wantF: func(k *recEnv) string {
		if k.defined {
			return "S(99)"
		}
		return "F(E1)"
	}, callsF: ifDefined},
	{name: "StateT.RecoverCaseT", passS: "S(42)", usesDef: true, run: func(k *recEnv, s bool) string {
		return k.tryStr(recvStateT(k, s).RecoverCaseT(k.isDef, func(err error) fp.Try[int] { k.h(err); return k.hTry() }).Eval(0))
	}, wantF: func(k *recEnv) string {
		if k.defined {
			return k.hTryS()
		}
		return "F(E1)"
	}, callsF: ifDefined},
	{name: "StateT.RecoverCaseWith", passS: "S(42)", usesDef: true, run: func(k *recEnv, s bool) string {
		return k.tryStr(recvStateT(k, s).RecoverCaseWith(k.isDef, func(err error) fp.StateT[int, int] {
			k.h(err)
			return func(st int) (fp.Try[int], int) { return k.hTry(), st }
		}).Eval(0))
	}, wantF: func(k *recEnv) string {
		if k.defined {
			return k.hTryS()
		}
		return "F(E1)"
	}, callsF: ifDefined},
}

func c02Recover(r *sim.Run) {
	r.Case = "recover"
	cs := recCases[r.Choose(len(recCases), "recCase")]
	r.MixFingerprintS(cs.name)
	sim.NoteCase("C02 " + cs.name)
	// complete sweep of (receiver success/failure) x (handler fails) x (isDefinedAt)
	for _, succ := range []bool{true, false} {
		for _, hFail := range []bool{false, true} {
			for _, def := range []bool{false, true} {
				k := &recEnv{e1: errors.New("E1"), e2: errors.New("E2"), gotOwn: true, hFail: hFail, defined: def}
				var got string
				var pan any
				func() {
					defer func() { pan = recover() }()
					got = cs.run(k, succ)
				}()
				r.Probe("plans-executed")
				desc := fmt.Sprintf("%s on a %s receiver (handler fails=%v, isDefinedAt=%v)", cs.name, map[bool]string{true: "succeeded", false: "failed"}[succ], hFail, def)
				if pan != nil {
					r.Violate("recover-panic", "%s panicked: %v", desc, pan)
					return
				}
				if k.recvRuns > 1 {
					r.Violate("receiver-rerun", "%s executed the receiving StateT step %d times during one Eval, want exactly once", desc, k.recvRuns)
					return
				}
				if succ {
					if got != cs.passS {
						r.Violate("success-not-passed-through", "%s returned %s, want the success unchanged (%s)", desc, got, cs.passS)
						return
					}
					if k.calls != 0 || k.defCalls != 0 {
						r.Violate("handler-ran-on-success", "%s invoked its handler %d time(s) and isDefinedAt %d time(s) although the receiver had succeeded", desc, k.calls, k.defCalls)
						return
					}
					continue
				}
				r.Fault("receiver-failed")
				r.NonTrivial()
				if want := cs.wantF(k); got != want {
					r.Violate("recover-wrong-result", "%s returned %s, want %s", desc, got, want)
					return
				}
				if !cs.noHandle {
					if want := cs.callsF(k); k.calls != want {
						r.Violate("handler-count", "%s invoked its handler %d time(s), want %d", desc, k.calls, want)
						return
					}
				}
				if cs.usesDef && k.defCalls != 1 {
					r.Violate("handler-count", "%s invoked isDefinedAt %d time(s), want 1", desc, k.defCalls)
					return
				}
				if !k.gotOwn {
					r.Violate("handler-wrong-error", "%s passed its handler an error other than the receiver's own", desc)
					return
				}
			}
		}
	}
}

// ---------------------------------------------------------------- panic capture

type c02pv struct {
	name string
	v    any
	// raise, when set, makes the Go runtime itself panic (the value is then a runtime.Error
	// created by the runtime; it is compared by its message)
	raise func()
	msg   string
}

var c02NilMap map[string]int
var c02NilPtr *c02pstruct
var c02Zero = 0
var c02AnyStr any = "not an int"

var c02PanicErr = errors.New("panic-error-value")

type c02pstruct struct{ A int }

var c02PanicVals = []c02pv{
	{name: "string", v: "boom"},
	{name: "error", v: c02PanicErr},
	{name: "int", v: 42},
	{name: "struct", v: c02pstruct{7}},
	{name: "typed nil pointer", v: (*int)(nil)},
	{name: "fmt error", v: fmt.Errorf("wrapped: %w", c02PanicErr)},
	{name: "runtime error (nil map write)", raise: func() { c02NilMap["k"] = 1 }, msg: "assignment to entry in nil map"},
	{name: "runtime error (nil dereference)", raise: func() { c02Zero = c02NilPtr.A }, msg: "invalid memory address or nil pointer dereference"},
	{name: "runtime error (index out of range)", raise: func() { s := make([]int, c02Zero); c02Zero = s[c02Zero+3] }, msg: "index out of range [3] with length 0"},
	{name: "runtime error (integer divide by zero)", raise: func() { c02Zero = 7 / c02Zero }, msg: "integer divide by zero"},
	{name: "runtime error (failed type assertion)", raise: func() { c02Zero = c02AnyStr.(int) }, msg: "interface conversion: interface {} is string, not int"},
	{name: "custom error type", v: c02customErr{code: 3}},
	{name: "error that is itself a captured panic (Panic and Stack methods)", v: c02Captured},
	{name: "user error type with Panic and Stack methods", v: &c02fakeCaptured{}},
}

// c02Captured is the error of a Try that failed because of an earlier panic: throwing it again (failed.Get()) is a
// new panic whose value is this error object - that is what the resulting Failure has to expose.
var c02Captured = try.Of(func() int { panic("an earlier, inner panic") }).Failed().Get()

type c02fakeCaptured struct{}

func (*c02fakeCaptured) Error() string { return "looks like a captured panic" }
func (*c02fakeCaptured) Panic() any    { return "not the value that was thrown" }
func (*c02fakeCaptured) Stack() []byte { return nil }

type c02customErr struct{ code int }

func (c c02customErr) Error() string { return fmt.Sprintf("custom %d", c.code) }
func (c c02customErr) RuntimeError() {} // satisfies runtime.Error although raised by user code

func panicValOf(err error) (any, bool) {
	var pe interface{ Panic() any }
	if errors.As(err, &pe) {
		return pe.Panic(), true
	}
	return nil, false
}

// c02ErrorValuedReturn: a body whose NORMAL result happens to be a non-nil error value (result type error / any)
// has returned normally: "never turn a normal return into a failure".
func c02ErrorValuedReturn(r *sim.Run, which int) {
	r.Case = "panic-capture"
	val := fmt.Errorf("a value of type error, returned normally: %w", c02PanicErr)
	names := [...]string{"try.Of[error]", "try.Of[any]", "future.Apply[error]", "future.Apply[any]"}
	r.MixFingerprintS(names[which])
	sim.NoteCase("C02 " + names[which])
	check := func(ok bool, got any, desc string) {
		r.Probe("error-valued-normal-returns")
		if !ok {
			r.Violate("normal-return-turned-failure", "%s with a body that returns the error value %q as its normal result gave %v, want a Success holding that value", names[which], val, desc)
			return
		}
		if got != any(val) {
			r.Violate("normal-return-turned-failure", "%s: Success holds %v, the body returned %v", names[which], got, val)
		}
	}
	switch which {
	case 0:
		t := try.Of(func() error { return val })
		check(t.IsSuccess(), t.OrZero(), fmt.Sprint(t))
	case 1:
		t := try.Of(func() any { return val })
		check(t.IsSuccess(), t.OrZero(), fmt.Sprint(t))
	default:
		ex := &execSet{run: r}
		ctx := ex.ctx(r.Choose(exKinds, "ex"))
		var fe fp.Future[error]
		var fa fp.Future[any]
		r.Go("caller", func(t *sim.Task) {
			if which == 2 {
				fe = future.Apply(func() error { return val }, ctx...)
			} else {
				fa = future.Apply(func() any { return val }, ctx...)
			}
		})
		r.RunToQuiescence()
		if r.Failed() {
			return
		}
		if which == 2 {
			if !fe.IsCompleted() {
				r.Violate("apply-not-completed", "%s: the future never completed", names[which])
				return
			}
			check(fe.Value().IsSuccess(), fe.Value().OrZero(), fmt.Sprint(fe.Value()))
		} else {
			if !fa.IsCompleted() {
				r.Violate("apply-not-completed", "%s: the future never completed", names[which])
				return
			}
			check(fa.Value().IsSuccess(), fa.Value().OrZero(), fmt.Sprint(fa.Value()))
		}
	}
}

// c02NilValuedReturn: a body that returns normally with a nil value of a nilable result type (pointer, slice, map, func,
// interface, error as a VALUE) and no error has returned normally: the result is a Success holding that nil.
func c02NilValuedReturn(r *sim.Run) {
	r.Case = "panic-capture"
	names := [...]string{"try.Of[*int]", "try.Call[*int]", "try.Call[[]int]", "try.Call[map]", "try.Call[any]", "try.Call[func]", "try.Call[error as value]",
		"try.CallUnit", "future.Apply[*int]", "future.Apply2[*int]", "future.Apply2[any]", "try.Of[[]int]"}
	which := r.Choose(len(names), "nilValued")
	r.MixFingerprintS("nil-valued:" + names[which])
	sim.NoteCase("C02 nil-valued " + names[which])
	r.Probe("nil-valued-normal-returns")
	bad := func(desc string) {
		r.Violate("normal-return-turned-failure", "%s with a body that returns a nil value (and no error) gave %s, want a Success holding nil", names[which], desc)
	}
	judge := func(ok, isNil bool, desc string) {
		if !ok || !isNil {
			bad(desc)
		}
	}
	switch which {
	case 0:
		t := try.Of(func() *int { return nil })
		judge(t.IsSuccess(), t.OrZero() == nil, fmt.Sprint(t))
	case 1:
		t := try.Call(func() (*int, error) { return nil, nil })
		judge(t.IsSuccess(), t.OrZero() == nil, fmt.Sprint(t))
	case 2:
		t := try.Call(func() ([]int, error) { return nil, nil })
		judge(t.IsSuccess(), t.OrZero() == nil, fmt.Sprint(t))
	case 3:
		t := try.Call(func() (map[string]int, error) { return nil, nil })
		judge(t.IsSuccess(), t.OrZero() == nil, fmt.Sprint(t))
	case 4:
		t := try.Call(func() (any, error) { return nil, nil })
		judge(t.IsSuccess(), t.OrZero() == nil, fmt.Sprint(t))
	case 5:
		t := try.Call(func() (func(), error) { return nil, nil })
		judge(t.IsSuccess(), t.OrZero() == nil, fmt.Sprint(t.IsSuccess()))
	case 6:
		t := try.Call(func() (error, error) { return nil, nil })
		judge(t.IsSuccess(), t.OrZero() == nil, fmt.Sprint(t))
	case 7:
		t := try.CallUnit(func() error { return nil })
		judge(t.IsSuccess(), true, fmt.Sprint(t))
	case 11:
		t := try.Of(func() []int { return nil })
		judge(t.IsSuccess(), t.OrZero() == nil, fmt.Sprint(t))
	default:
		ex := &execSet{run: r}
		ctx := ex.ctx(r.Choose(exKinds, "ex"))
		var fpn fp.Future[*int]
		var fa fp.Future[any]
		r.Go("caller", func(t *sim.Task) {
			switch which {
			case 8:
				fpn = future.Apply(func() *int { return nil }, ctx...)
			case 9:
				fpn = future.Apply2(func() (*int, error) { return nil, nil }, ctx...)
			default:
				fa = future.Apply2(func() (any, error) { return nil, nil }, ctx...)
			}
		})
		r.RunToQuiescence()
		if r.Failed() {
			return
		}
		if which == 10 {
			if !fa.IsCompleted() {
				r.Violate("apply-not-completed", "%s: the future never completed", names[which])
				return
			}
			judge(fa.Value().IsSuccess(), fa.Value().OrZero() == nil, fmt.Sprint(fa.Value()))
		} else {
			if !fpn.IsCompleted() {
				r.Violate("apply-not-completed", "%s: the future never completed", names[which])
				return
			}
			judge(fpn.Value().IsSuccess(), fpn.Value().OrZero() == nil, fmt.Sprint(fpn.Value()))
		}
	}
}

// c02NoErrorFailure: an operand that has failed without carrying an error - the zero-value fp.Try (a map miss, an
// unassigned field), Failure(nil), a failure whose error was mapped to nil. It is a failure: continuations and the
// functions of later elements are not invoked, and what comes out is a failure (with some non-nil error where an error
// is returned), never a success.
func c02NoErrorFailure(r *sim.Run) {
	r.Case = "no-error-failure"
	mk := [...]func() fp.Try[int]{
		func() fp.Try[int] { return fp.Try[int]{} },
		func() fp.Try[int] { return fp.Failure[int](nil) },
		func() fp.Try[int] { return fp.Failure[int](errors.New("x")).MapError(func(error) error { return nil }) },
	}
	mkNames := [...]string{"the zero-value Try", "Failure(nil)", "Failure(e).MapError(-> nil)"}
	w := r.Choose(len(mk), "noErrKind")
	bad := mk[w]()
	names := [...]string{"try.Traverse_", "Unapply / try.Call(t.Unapply)", "try.FlatMap", "Try.FlatMap/Map methods", "try.Map2", "try.TraverseSeq"}
	k := r.Choose(len(names), "noErrCase")
	r.MixFingerprintS("no-error-failure:" + names[k] + mkNames[w])
	sim.NoteCase("C02 no-error-failure " + names[k])
	r.Probe("operands-failed-without-an-error")
	r.Fault("operand-fails-without-an-error")
	r.NonTrivial()
	viol := func(format string, a ...any) {
		r.Violate("wrong-calls:no-error-failure", "%s with an operand that is %s: %s", names[k], mkNames[w], fmt.Sprintf(format, a...))
	}
	var calls []int
	failAt := 1 + r.Choose(3, "noErrAt")
	step := func(i int) fp.Try[int] {
		calls = append(calls, i)
		if i == failAt {
			return bad
		}
		return fp.Success(i)
	}
	wantCalls := func() string {
		var w []int
		for i := 1; i <= failAt; i++ {
			w = append(w, i)
		}
		return fmt.Sprint(w)
	}
	// (the library refuses such an operand with a panic in several places - "Try not initialized correctly": the failure
	// has surfaced, which is fine; what must not happen is that it is taken for a success and the computation goes on)
	defer func() {
		if p := recover(); p != nil {
			r.Probe("no-error-failures-refused-with-a-panic")
			if k == 0 || k == 5 {
				if fmt.Sprint(calls) != wantCalls() {
					viol("panicked (%v) after invoking functions at %v, want %s", p, calls, wantCalls())
				}
			}
		}
	}()
	switch k {
	case 0:
		err := try.Traverse_(iterator.FromSlice([]int{1, 2, 3, 4}), step)
		if err == nil {
			viol("Traverse_ returned nil although element %d failed (functions invoked at %v)", failAt, calls)
		} else if fmt.Sprint(calls) != wantCalls() {
			viol("functions invoked at %v, want %s (none after the failing element)", calls, wantCalls())
		}
	case 1:
		_, err := bad.Unapply()
		if err == nil {
			viol("Unapply returned a nil error for a failure")
			return
		}
		if t := try.Call(bad.Unapply); t.IsSuccess() {
			viol("try.Call(t.Unapply) is %v, want a failure", t)
		}
	case 2:
		called := false
		t := try.FlatMap(bad, func(int) fp.Try[int] { called = true; return fp.Success(1) })
		if called || t.IsSuccess() {
			viol("continuation invoked=%v, result %v", called, t.IsSuccess())
		}
	case 3:
		called := false
		t := bad.FlatMap(func(int) fp.Try[int] { called = true; return fp.Success(1) }).Map(func(int) int { called = true; return 2 })
		if called || t.IsSuccess() {
			viol("continuation invoked=%v, result success=%v", called, t.IsSuccess())
		}
	case 4:
		called := false
		t := try.Map2(bad, fp.Success(2), func(a, b int) int { called = true; return a + b })
		if called || t.IsSuccess() {
			viol("function invoked=%v, result success=%v", called, t.IsSuccess())
		}
	default:
		t := try.TraverseSeq(fp.Seq[int]{1, 2, 3, 4}, step)
		if t.IsSuccess() {
			viol("TraverseSeq is a success although element %d failed", failAt)
		} else if fmt.Sprint(calls) != wantCalls() {
			viol("functions invoked at %v, want %s (none after the failing element)", calls, wantCalls())
		}
	}
}

// c02NilPtrErr: an error type with a pointer receiver; a nil *c02NilPtrErr stored in an error is a non-nil error.
type c02NilPtrErr struct{ msg string }

func (e *c02NilPtrErr) Error() string {
	if e == nil {
		return "error value holding a nil pointer"
	}
	return e.msg
}

func c02Panics(r *sim.Run) {
	r.Case = "panic-capture"
	if w := r.Choose(12, "errorValued"); w < 4 {
		c02ErrorValuedReturn(r, w)
		return
	} else if w < 7 {
		c02NilValuedReturn(r)
		return
	} else if w == 7 {
		c02NoErrorFailure(r)
		return
	}
	kind := r.Choose(10, "panicKind")
	names := [...]string{"try.Of", "try.Call", "try.CallUnit", "future.Apply", "future.Apply2", "future.Func0", "future.Func1", "future.Func2", "future.Func3", "future.Unit1"}
	mode := r.Choose(3, "bodyMode") // 0 normal return, 1 returns error (where the signature allows), 2 panics
	pv := c02PanicVals[r.Choose(len(c02PanicVals), "panicValue")]
	sentinel := errors.New("body-error")
	if r.Bool(1, 3, "typedNilError") {
		// a non-nil error VALUE whose dynamic value is a nil pointer: `err != nil` holds, the body has failed
		var tn *c02NilPtrErr
		sentinel = tn
	}
	if (kind == 0 || kind == 3) && mode == 1 {
		mode = 0 // try.Of / future.Apply bodies have no error result
	}
	r.MixFingerprintS(names[kind])
	r.MixFingerprint(uint64(mode)<<8 | uint64(len(pv.name)))
	sim.NoteCase(fmt.Sprintf("C02 %s mode=%d", names[kind], mode))
	calls := 0
	body := func() (int, error) {
		calls++
		switch mode {
		case 1:
			return 0, sentinel
		case 2:
			r.Fault("body-panics")
			if pv.raise != nil {
				pv.raise()
			}
			panic(pv.v)
		}
		return 5, nil
	}
	hasErr := true
	var res fp.Try[int]
	unitRes := false
	var fut fp.Future[int]
	isFuture := false
	ex := &execSet{run: r}
	ctx := ex.ctx(r.Choose(exKinds, "ex"))
	var escaped any
	guard := func(f func()) {
		defer func() { escaped = recover() }()
		f()
	}
	switch kind {
	case 0:
		hasErr = false
		guard(func() { res = try.Of(func() int { v, _ := body(); return v }) })
	case 1:
		guard(func() { res = try.Call(body) })
	case 2:
		unitRes = true
		guard(func() {
			u := try.CallUnit(func() error { _, err := body(); return err })
			res = try.Map2(u, try.Success(5), func(fp.Unit, int) int { return 5 })
		})
	default:
		isFuture = true
		r.Go("caller", func(t *sim.Task) {
			switch kind {
			case 3:
				hasErr = false
				fut = future.Apply(func() int { v, _ := body(); return v }, ctx...)
			case 4:
				fut = future.Apply2(body, ctx...)
			case 5:
				fut = future.Func0(body, ctx...)(fp.Unit{})
			case 6:
				fut = future.Func1(func(int) (int, error) { return body() }, ctx...)(1)
			case 7:
				fut = future.Func2(func(int, int) (int, error) { return body() }, ctx...)(1, 2)
			case 8:
				fut = future.Func3(func(int, int, int) (int, error) { return body() }, ctx...)(1, 2, 3)
			default:
				unitRes = true
				u := future.Unit1(func(int) error { _, err := body(); return err }, ctx...)(1)
				fut = future.Map(u, func(fp.Unit) int { return 5 })
			}
		})
		r.RunToQuiescence()
		if r.Failed() {
			return
		}
		if !fut.IsCompleted() {
			r.Violate("apply-not-completed", "%s (body mode %d, panic value %s): the future never completed", names[kind], mode, pv.name)
			return
		}
		res = fut.Value()
	}
	_ = unitRes
	_ = isFuture
	if mode == 1 && !hasErr {
		mode = 0
	}
	desc := fmt.Sprintf("%s with a body that %s", names[kind], [...]string{"returns normally", "returns an error", "panics with a " + pv.name + " value"}[mode])
	if escaped != nil {
		r.Violate("panic-escaped", "%s: the panic was not captured, it escaped to the caller: %v", desc, escaped)
		return
	}
	if calls != 1 {
		r.Violate("body-count", "%s: body executed %d time(s), want 1", desc, calls)
		return
	}
	switch mode {
	case 0:
		if !res.IsSuccess() || res.Get() != 5 {
			r.Violate("normal-return-turned-failure", "%s returned %v, want Success(5)", desc, res)
		}
	case 1:
		if res.IsSuccess() || !errors.Is(res.Failed().Get(), sentinel) {
			r.Violate("wrong-failure", "%s returned %v, want a Failure carrying the body's own error", desc, res)
		}
	case 2:
		r.NonTrivial()
		if res.IsSuccess() {
			r.Violate("panic-lost", "%s returned %v, want a Failure", desc, res)
			return
		}
		got, ok := panicValOf(res.Failed().Get())
		if !ok {
			r.Violate("panic-value-lost", "%s returned a Failure whose error does not expose the panic value (%T)", desc, res.Failed().Get())
			return
		}
		if pv.raise != nil {
			ge, isErr := got.(error)
			if !isErr || !strings.Contains(ge.Error(), pv.msg) {
				r.Violate("panic-value-lost", "%s: Failure exposes panic value %v (%T), the runtime raised %q", desc, got, got, pv.msg)
			}
		} else if got != pv.v {
			r.Violate("panic-value-lost", "%s: Failure exposes panic value %v (%T), the body panicked with %v (%T)", desc, got, got, pv.v, pv.v)
		}
	}
}
