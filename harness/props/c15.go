package props

import (
	"bytes"
	"encoding/json"
	"errors"
	"fmt"
	"io"
	"reflect"
	"sort"
	"strings"
	"time"

	"github.com/csgura/fp"
	"github.com/csgura/fp/test/verifjson"
	"verif/harness/sim"
)

func init() {
	Register(&Prop{
		ID:    "C15",
		Level: "fault_enumeration",
		Rule: "one run = one record: a seeded value of fp.Option[T] (T in int, string with escapes, float64, bool, nested Option, []int, map[string]int, struct with Option fields, *int; as top-level target " +
			"and nested in slices / maps / structs) or fp.Unit is marshalled into a simulated store (a byte buffer). Fault-free class: decoded value deep-equals the original, None <=> null, bytes equal encoding/json of the plain value. " +
			"Fault class: between write and read the store applies a torn write at EVERY offset of the record (complete enumeration) and seeded bit flips, byte duplication / deletion, splice with another record, zero fill, " +
			"leading / trailing whitespace; the reader decodes with json.Unmarshal and with json.Decoder over an io.Reader that returns short reads and, as I/O fault, an error mid-stream, into a pre-populated target. " +
			"Oracle under faults: no panic; if an error is returned the Option / Unit target is unchanged; a faulted record that still parses may decode to any value. " +
			"non-trivial = a faulted record of length >= 2; distinct = (type, value, fault).",
		Assumptions: []string{
			"PARTIAL: only the byte-level part of the property is decided here (Option and Unit as top-level targets and inside ordinary containers); the quantifier over @fp.Json struct shapes and the equality with the Mutable twin's encoding concern generated programs (see C07) and are not claimed",
			"values whose own JSON encoding is null (Some(nil pointer), Some(None)) are excluded as the property says; 'unchanged on error' is required of Option/Unit targets, not of plain structs that encoding/json itself fills field by field",
		},
		Real:     []string{"fp.Option MarshalJSON/UnmarshalJSON", "fp.Unit MarshalJSON/UnmarshalJSON", "encoding/json"},
		Stub:     []string{"the byte store between Marshal and Unmarshal (fault injection)", "io.Reader handed to json.Decoder (short reads, mid-stream error)"},
		Quick:    Budget{Runs: 600000, Wall: 45 * time.Second},
		Thorough: Budget{Runs: 60000000, Wall: 20 * time.Minute},
		Exec:     execC15,
	})
}

type c15rec struct {
	A int               `json:"a"`
	B fp.Option[string] `json:"b"`
	C fp.Option[[]int]  `json:"c,omitempty"`
	D fp.Option[int]
}

var c15Strings = []string{"", "plain", "quote\"back\\slash", "tab\tnew\nline", "unicode é 漢  ", "<html>&amp;", "null", "n", "\x00\x01"}

// intact records of other schemas (what a misdirected read returns)
var c15Foreign = []string{`"text"`, `12`, `300`, `-1.5e3`, `true`, `[1,2]`, `["a"]`, `{"a":1}`, `{"a":"x","b":7,"c":"y","D":[1]}`, `[]`, `{}`, `"12"`, `[null]`, `{"p":"x"}`, `1e400`, `99999999999999999999`, `[[1]]`, `{"k":1}`}

// c15SchemaDrift re-encodes rec with one leaf replaced by a value of a different JSON type.
func c15SchemaDrift(r *sim.Run, rec []byte) ([]byte, string) {
	var doc any
	dec := json.NewDecoder(bytes.NewReader(rec))
	dec.UseNumber()
	if dec.Decode(&doc) != nil {
		return rec, "none (record does not parse)"
	}
	type slot struct {
		set func(any)
		old any
	}
	var leaves []slot
	var walk func(v any, set func(any))
	walk = func(v any, set func(any)) {
		switch x := v.(type) {
		case map[string]any:
			keys := make([]string, 0, len(x))
			for k := range x {
				keys = append(keys, k)
			}
			sort.Strings(keys)
			for _, k := range keys {
				k := k
				walk(x[k], func(n any) { x[k] = n })
			}
			if len(x) == 0 {
				leaves = append(leaves, slot{set, v})
			}
		case []any:
			for i := range x {
				i := i
				walk(x[i], func(n any) { x[i] = n })
			}
			if len(x) == 0 {
				leaves = append(leaves, slot{set, v})
			}
		default:
			leaves = append(leaves, slot{set, v})
		}
	}
	walk(doc, func(n any) { doc = n })
	l := leaves[r.Choose(len(leaves), "driftLeaf")]
	alts := []any{"drift", json.Number("7"), true, []any{json.Number("1")}, map[string]any{"x": json.Number("1")}, json.Number("1.5"), json.Number("300")}
	var nv any
	for k := r.Choose(len(alts), "driftTo"); ; k++ {
		nv = alts[k%len(alts)]
		if fmt.Sprintf("%T", nv) != fmt.Sprintf("%T", l.old) || fmt.Sprint(nv) == "1.5" {
			break
		}
	}
	l.set(nv)
	out, err := json.Marshal(doc)
	if err != nil {
		return rec, "none"
	}
	return out, fmt.Sprintf("a leaf holding %v now holds %v", l.old, nv)
}

type shortReader struct {
	data   []byte
	chunks []int
	ci     int
	failAt int // offset at which Read returns an error (-1 never)
	pos    int
}

var errInjectedIO = errors.New("injected I/O error")

func (s *shortReader) Read(p []byte) (int, error) {
	if s.failAt >= 0 && s.pos >= s.failAt {
		return 0, errInjectedIO
	}
	if s.pos >= len(s.data) {
		return 0, io.EOF
	}
	n := 1
	if len(s.chunks) > 0 {
		n = s.chunks[s.ci%len(s.chunks)]
		s.ci++
	}
	if n > len(p) {
		n = len(p)
	}
	if s.pos+n > len(s.data) {
		n = len(s.data) - s.pos
	}
	if s.failAt >= 0 && s.pos+n > s.failAt {
		n = s.failAt - s.pos
		if n == 0 {
			return 0, errInjectedIO
		}
	}
	copy(p, s.data[s.pos:s.pos+n])
	s.pos += n
	return n, nil
}

const c15Direct = -2

type c15ctx struct {
	r    *sim.Run
	name string
	// freshFF: the fault-free class decodes into the zero value although the target is
	// "unchanged on error"-strict (generated @fp.Json structs decode through their Mutable
	// twin, into which encoding/json merges field by field like into any plain struct)
	freshFF bool
}

// decode runs one read of the store into a copy of pre; returns the target afterwards.
func c15Decode[T any](c *c15ctx, data []byte, pre T, useDecoder bool, chunks []int, failAt int) (out T, err error, pan any) {
	target := pre
	func() {
		defer func() { pan = recover() }()
		if failAt == c15Direct {
			// the reader hands the raw bytes straight to the target's own UnmarshalJSON (and reuses its block afterwards)
			block := append([]byte(nil), data...)
			err = any(&target).(json.Unmarshaler).UnmarshalJSON(block)
			for i := range block {
				block[i] = '#'
			}
			return
		}
		if useDecoder {
			err = json.NewDecoder(&shortReader{data: data, chunks: chunks, failAt: failAt}).Decode(&target)
		} else {
			// the reader owns its block: it decodes from a private copy and reuses (overwrites) the block right afterwards,
			// so a decoded value must not keep pointing into the bytes it was decoded from
			block := append([]byte(nil), data...)
			err = json.Unmarshal(block, &target)
			for i := range block {
				block[i] = '#'
			}
		}
	}()
	return target, err, pan
}

func c15Faults(r *sim.Run, rec, other []byte) (out [][]byte, names []string) {
	// torn write at every offset: complete enumeration
	for i := 0; i < len(rec); i++ {
		out = append(out, append([]byte(nil), rec[:i]...))
		names = append(names, fmt.Sprintf("torn write at offset %d", i))
	}
	n := r.Range(2, 8, "nFaults")
	for i := 0; i < n; i++ {
		b := append([]byte(nil), rec...)
		kind := r.Choose(12, "faultKind")
		if len(b) == 0 && kind != 8 && kind != 10 && kind != 11 {
			kind = 7
		}
		switch kind {
		case 10:
			// the store hands back a blanked block: nothing but JSON whitespace, of a seeded length
			n := 1 + r.Choose(6, "blankLen")
			b = []byte(strings.Repeat([]string{" ", "\n", "\t", "\r"}[r.Choose(4, "blankCh")], n))
			names = append(names, fmt.Sprintf("record replaced by %d whitespace byte(s)", n))
			r.Fault("blank-block")
		case 11:
			// arbitrary bytes
			n := 1 + r.Choose(12, "junkLen")
			b = make([]byte, n)
			for k := range b {
				b[k] = byte(r.Choose(256, "junk"))
			}
			names = append(names, fmt.Sprintf("record replaced by %d arbitrary byte(s) %q", n, b))
			r.Fault("arbitrary-bytes")
		case 9:
			// schema drift: an intact, well-formed record in which one leaf has a value of another JSON type
			// (what a writer with a different schema version stores); other fields keep their good values
			nb, what := c15SchemaDrift(r, b)
			b = nb
			names = append(names, "schema drift: "+what)
			r.Fault("schema-drift")
		case 8:
			// misdirected read: the store returns an intact record of another schema
			b = []byte(c15Foreign[r.Choose(len(c15Foreign), "foreign")])
			names = append(names, fmt.Sprintf("misdirected read returning the foreign record %s", b))
			r.Fault("misdirected-read")
		case 0:
			p := r.Choose(len(b)*8, "bit")
			b[p/8] ^= 1 << (p % 8)
			names = append(names, fmt.Sprintf("bit flip at bit %d", p))
			r.Fault("bit-flip")
		case 1:
			for k := r.Range(2, 4, "nBits"); k > 0; k-- {
				p := r.Choose(len(b)*8, "bit")
				b[p/8] ^= 1 << (p % 8)
			}
			names = append(names, "multiple bit flips")
			r.Fault("multi-bit-flip")
		case 2:
			p := r.Choose(len(b), "dupAt")
			b = append(b[:p+1], b[p:]...)
			names = append(names, fmt.Sprintf("byte %d duplicated", p))
			r.Fault("byte-duplicated")
		case 3:
			p := r.Choose(len(b), "delAt")
			b = append(b[:p], b[p+1:]...)
			names = append(names, fmt.Sprintf("byte %d deleted", p))
			r.Fault("byte-deleted")
		case 4:
			p := r.Choose(len(b)+1, "spliceAt")
			q := r.Choose(len(other)+1, "spliceFrom")
			b = append(append([]byte(nil), b[:p]...), other[q:]...)
			names = append(names, fmt.Sprintf("spliced with another record at %d/%d", p, q))
			r.Fault("splice")
		case 5:
			p := r.Choose(len(b), "zeroAt")
			for k := p; k < len(b) && k < p+4; k++ {
				b[k] = 0
			}
			names = append(names, fmt.Sprintf("zero fill from %d", p))
			r.Fault("zero-fill")
		case 6:
			ws := []string{" ", "\n", "\t\r\n "}[r.Choose(3, "ws")]
			if r.Choose(2, "wsLead") == 0 {
				b = append([]byte(ws), b...)
			} else {
				b = append(b, ws...)
			}
			names = append(names, "whitespace added")
			r.Fault("whitespace")
		default:
			b = append(b, other...)
			names = append(names, "two records concatenated")
			r.Fault("concatenated-records")
		}
		out = append(out, b)
	}
	return
}

// c15Run checks one (value, pre-populated target) pair of a type whose Marshal/Unmarshal goes through Option/Unit.
// isOptTarget: the target itself is an Option or Unit (then "unchanged on error" is required).
func c15Run[T any](c *c15ctx, v, pre, otherVal T, plain any, hasPlain bool, isOptTarget bool) {
	r := c.r
	rec, err := json.Marshal(v)
	if err != nil {
		r.Violate("marshal-error:"+c.name, "%s: Marshal(%v) failed: %v", c.name, v, err)
		return
	}
	if hasPlain {
		want, _ := json.Marshal(plain)
		if !bytes.Equal(rec, want) {
			r.Violate("encoding-differs:"+c.name, "%s: Marshal gives %s, encoding/json gives %s for the plain value", c.name, rec, want)
			return
		}
	}
	other, _ := json.Marshal(otherVal)
	// the writer may hand the slice returned by the value's own MarshalJSON straight to the store (no copy) and go on
	// marshalling other records: a record at rest must not change
	if mv, ok := any(v).(json.Marshaler); ok {
		atRest, err := mv.MarshalJSON()
		if err != nil {
			r.Violate("marshal-error:"+c.name, "%s: MarshalJSON(%v) failed: %v", c.name, v, err)
			return
		}
		snapshot := append([]byte(nil), atRest...)
		for _, x := range []any{otherVal, pre, v, otherVal} {
			if mo, ok := x.(json.Marshaler); ok {
				mo.MarshalJSON()
			}
		}
		r.Probe("records-kept-at-rest-while-writer-continues")
		if !bytes.Equal(atRest, snapshot) {
			r.Violate("record-changed-at-rest:"+c.name, "%s: the bytes MarshalJSON returned for %v were %s and read %s after later MarshalJSON calls on other values", c.name, v, snapshot, atRest)
			return
		}
		// the store owns the block it was handed and may overwrite it in place (encrypt, pad, recycle): a later
		// MarshalJSON of the same value must not be affected (no encoding may alias shared state)
		for i := range atRest {
			atRest[i] = '#'
		}
		again, err := mv.MarshalJSON()
		again = append([]byte(nil), again...)
		copy(atRest, snapshot) // put the block back: if it did alias shared state, later runs and replays must not inherit the damage
		if err != nil || !bytes.Equal(again, snapshot) {
			r.Violate("record-changed-at-rest:"+c.name, "%s: after the store overwrote the block MarshalJSON had returned (%s), MarshalJSON of the same value gives %q (err %v)", c.name, snapshot, again, err)
			return
		}
		var viaStd, viaOwn bytes.Buffer
		if json.Compact(&viaStd, rec) == nil && json.Compact(&viaOwn, snapshot) == nil && !bytes.Equal(viaStd.Bytes(), viaOwn.Bytes()) {
			r.Violate("encoding-differs:"+c.name, "%s: MarshalJSON gives %s, json.Marshal gives %s", c.name, snapshot, rec)
			return
		}
	}
	r.MixFingerprintS(c.name)
	r.MixFingerprintS(string(rec))
	chunks := []int{r.Range(1, 3, "chunk1"), r.Range(1, 5, "chunk2")}

	// ---- fault-free class
	for _, dec := range []bool{false, true} {
		ffPre := pre
		if !isOptTarget || c.freshFF {
			// encoding/json merges into pre-populated maps and keeps absent struct fields:
			// plain containers are decoded into their zero value
			var zero T
			ffPre = zero
		}
		got, err, pan := c15Decode(c, rec, ffPre, dec, chunks, -1)
		r.Probe("fault-free-decodes")
		if pan != nil {
			r.Violate("decode-panic:"+c.name, "%s: decoding the intact record %s panicked: %v", c.name, rec, pan)
			return
		}
		if err != nil {
			r.Violate("roundtrip-error:"+c.name, "%s: decoding the intact record %s failed: %v", c.name, rec, err)
			return
		}
		if !reflect.DeepEqual(got, v) {
			r.Violate("roundtrip-mismatch:"+c.name, "%s: %s decodes to %s, original %s (decoder=%v)", c.name, rec, c15Dump(got), c15Dump(v), dec)
			return
		}
	}
	// ---- a record as json.Encoder writes it (value + "\n"), handed straight to the target's own UnmarshalJSON by a
	// reader that splits its log into lines: trailing whitespace is part of a valid JSON text
	if _, ok := any(&pre).(json.Unmarshaler); ok {
		ffPre := pre
		if c.freshFF {
			var zero T
			ffPre = zero
		}
		line := append(append([]byte(nil), rec...), '\n')
		got, err, pan := c15Decode(c, line, ffPre, false, chunks, c15Direct)
		r.Probe("encoder-written-lines-decoded-directly")
		if pan != nil {
			r.Violate("decode-panic:"+c.name, "%s: UnmarshalJSON(%q) panicked: %v", c.name, line, pan)
			return
		}
		if err != nil {
			r.Violate("roundtrip-error:"+c.name, "%s: UnmarshalJSON of the intact record followed by a newline (%q, as json.Encoder writes it) failed: %v", c.name, line, err)
			return
		}
		if !reflect.DeepEqual(got, v) {
			r.Violate("roundtrip-mismatch:"+c.name, "%s: UnmarshalJSON(%q) (the record as json.Encoder writes it) gives %s, original %s", c.name, line, c15Dump(got), c15Dump(v))
			return
		}
	}
	// ---- a nil target pointer handed to the type's own UnmarshalJSON is a programming error of the caller, not of the
	// bytes: it must not panic ("decoding arbitrary bytes never panics")
	if _, ok := any(&pre).(json.Unmarshaler); ok {
		var np *T
		var nerr error
		var npan any
		func() {
			defer func() { npan = recover() }()
			nerr = any(np).(json.Unmarshaler).UnmarshalJSON(rec)
		}()
		r.Probe("nil-receiver-UnmarshalJSON-calls")
		if npan != nil {
			r.Violate("decode-panic:"+c.name, "%s: UnmarshalJSON(%s) on a nil receiver panicked: %v", c.name, rec, npan)
			return
		}
		_ = nerr // an error is the natural answer, but the property only says "never panics" (fp.Unit has nothing to store and accepts)
	}
	// ---- fault class
	faulted, names := c15Faults(r, rec, other)
	for i, data := range faulted {
		if i >= len(rec) {
			r.MixFingerprintS(string(data))
		}
		_, direct := any(&pre).(json.Unmarshaler)
		for mode := 0; mode < 3; mode++ {
			dec, failAt := mode == 1, -1
			if mode == 2 {
				if !direct || !isOptTarget {
					continue
				}
				failAt = c15Direct
				r.Probe("faulted-direct-UnmarshalJSON-calls")
			}
			got, err, pan := c15Decode(c, data, pre, dec, chunks, failAt)
			r.Probe("faulted-decodes")
			if i < len(rec) {
				r.Fault("torn-write")
			}
			if len(rec) >= 2 {
				r.NonTrivial()
			}
			if pan != nil {
				r.Violate("decode-panic:"+c.name, "%s: record %q after %s: decoding panicked: %v", c.name, rec, names[i], pan)
				return
			}
			if err != nil {
				r.Probe("faulted-decode-rejected")
				if isOptTarget && !reflect.DeepEqual(got, pre) {
					r.Violate("target-changed-on-error:"+c.name, "%s: record %q after %s: decode returned %v but changed the target from %#v to %#v", c.name, rec, names[i], err, pre, got)
					return
				}
			} else {
				r.Probe("faulted-decode-accepted")
			}
		}
	}
	// ---- I/O fault: the reader fails mid-stream
	if len(rec) > 0 {
		at := r.Choose(len(rec), "ioFailAt")
		got, err, pan := c15Decode(c, rec, pre, true, chunks, at)
		r.Fault("reader-error-mid-stream")
		if pan != nil {
			r.Violate("decode-panic:"+c.name, "%s: reader failing at offset %d: decoding panicked: %v", c.name, at, pan)
			return
		}
		if err == nil {
			r.Violate("io-error-swallowed:"+c.name, "%s: the reader failed at offset %d of %q but Decode reported success (%#v)", c.name, at, rec, got)
			return
		}
		if isOptTarget && !reflect.DeepEqual(got, pre) {
			r.Violate("target-changed-on-error:"+c.name, "%s: reader failing at offset %d: target changed from %#v to %#v", c.name, at, pre, got)
		}
	}
}

// number of record kinds that need no generated fixture (the fixture shapes follow)
const c15BaseN = 24

// defined scalar types whose JSON form is not the form of their underlying kind
type c15Level int

var c15LevelNames = [...]string{"low", "mid", "high"}

func (l c15Level) MarshalText() ([]byte, error) { return []byte(c15LevelNames[int(l)%3]), nil }
func (l *c15Level) UnmarshalText(b []byte) error {
	for i, n := range c15LevelNames {
		if n == string(b) {
			*l = c15Level(i)
			return nil
		}
	}
	return fmt.Errorf("unknown level %q", b)
}

type c15Flag bool

func (f c15Flag) MarshalJSON() ([]byte, error) {
	if f {
		return []byte(`"yes"`), nil
	}
	return []byte(`"no"`), nil
}
func (f *c15Flag) UnmarshalJSON(b []byte) error {
	switch string(b) {
	case `"yes"`:
		*f = true
	case `"no"`:
		*f = false
	default:
		return fmt.Errorf("not a flag: %s", b)
	}
	return nil
}

type c15Code uint8

func (c c15Code) MarshalText() ([]byte, error) { return []byte(fmt.Sprintf("code-%d", uint8(c))), nil }
func (c *c15Code) UnmarshalText(b []byte) error {
	var n uint8
	if _, err := fmt.Sscanf(string(b), "code-%d", &n); err != nil {
		return fmt.Errorf("not a code: %q", b)
	}
	*c = c15Code(n)
	return nil
}

func c15Opt[T any](r *sim.Run, defined bool, v T) fp.Option[T] {
	if defined {
		return fp.Some(v)
	}
	return fp.None[T]()
}

func execC15(r *sim.Run) {
	r.Case = "record"
	kind := r.Choose(c15BaseN+c15FixN, "type")
	def := r.Choose(4, "defined") != 0
	preDef := r.Choose(2, "preDefined") == 1
	i1, i2, i3 := r.Choose(2001, "i1")-1000, r.Choose(7, "i2"), r.Choose(1<<20, "i3")
	ints := []int{0, 1, -1, 1 << 31, -(1 << 31), 1<<53 + 1, -1 << 62, i1}
	n1, n2 := ints[i2], ints[(i2+3)%len(ints)]
	s1, s2 := c15Strings[r.Choose(len(c15Strings), "s1")], c15Strings[r.Choose(len(c15Strings), "s2")]
	floats := []float64{0, 1.5, -2.25e10, 1e-7, 3.141592653589793, float64(i3) / 7}
	f1, f2 := floats[r.Choose(len(floats), "f1")], floats[r.Choose(len(floats), "f2")]
	c := &c15ctx{r: r}
	switch kind {
	case 0:
		c.name = "Option[int]"
		v := c15Opt(r, def, n1)
		c15Run(c, v, c15Opt(r, preDef, n2), c15Opt(r, true, i1), any(n1), def, true)
		c15Null(c, v, def)
	case 1:
		c.name = "Option[string]"
		v := c15Opt(r, def, s1)
		c15Run(c, v, c15Opt(r, preDef, s2), c15Opt(r, true, "other"), any(s1), def, true)
		c15Null(c, v, def)
	case 2:
		c.name = "Option[float64]"
		v := c15Opt(r, def, f1)
		c15Run(c, v, c15Opt(r, preDef, f2), c15Opt(r, true, 9.5), any(f1), def, true)
		c15Null(c, v, def)
	case 3:
		c.name = "Option[bool]"
		v := c15Opt(r, def, i2%2 == 0)
		c15Run(c, v, c15Opt(r, preDef, true), c15Opt(r, true, false), any(i2%2 == 0), def, true)
		c15Null(c, v, def)
	case 4:
		c.name = "Option[Option[int]]"
		// Some(None) encodes as null and is excluded by the property; use Some(Some(n)) or None
		v := c15Opt(r, def, fp.Some(n1))
		c15Run(c, v, c15Opt(r, preDef, fp.Some(n2)), c15Opt(r, true, fp.Some(5)), any(n1), def, true)
	case 5:
		c.name = "Option[[]int]"
		sl := ints[:i2]
		v := c15Opt(r, def, sl)
		if def && sl == nil {
			v = c15Opt(r, true, []int{})
			sl = []int{}
		}
		c15Run(c, v, c15Opt(r, preDef, []int{7}), c15Opt(r, true, []int{1, 2}), any(sl), def, true)
	case 6:
		c.name = "Option[map[string]int]"
		m := map[string]int{}
		for k := 0; k < i2%4; k++ {
			m[c15Strings[(k+i2)%len(c15Strings)]] = ints[k]
		}
		v := c15Opt(r, def, m)
		c15Run(c, v, c15Opt(r, preDef, map[string]int{"p": 1}), c15Opt(r, true, map[string]int{"o": 2}), any(m), def, true)
	case 7:
		c.name = "Option[struct]"
		rec := c15rec{A: n1, B: c15Opt(r, i2%2 == 0, s1), C: c15Opt(r, i2%3 == 0, []int{n2}), D: c15Opt(r, i2%5 != 0, n2)}
		v := c15Opt(r, def, rec)
		c15Run(c, v, c15Opt(r, preDef, c15rec{A: 1, B: fp.Some("pre")}), c15Opt(r, true, c15rec{A: 2}), any(rec), def, true)
	case 8:
		c.name = "Option[*int]"
		// Some(nil) encodes as null: excluded. Only Some(&n) and None.
		p := &n1
		v := c15Opt(r, def, p)
		q := n2
		c15Run(c, v, c15Opt(r, preDef, &q), c15Opt(r, true, &q), any(p), def, true)
	case 9:
		c.name = "[]Option[int]"
		v := []fp.Option[int]{c15Opt(r, def, n1), fp.None[int](), fp.Some(n2)}[:1+i2%3]
		plain := make([]any, len(v))
		for i, o := range v {
			if o.IsDefined() {
				plain[i] = o.Get()
			}
		}
		c15Run(c, v, []fp.Option[int]{fp.Some(1)}, []fp.Option[int]{fp.Some(2), fp.None[int]()}, any(plain), true, false)
	case 10:
		c.name = "map[string]Option[string]"
		v := map[string]fp.Option[string]{"k": c15Opt(r, def, s1), s2: fp.None[string]()}
		c15Run(c, v, map[string]fp.Option[string]{"pre": fp.Some("x")}, map[string]fp.Option[string]{"o": fp.Some("y")}, nil, false, false)
	case 11:
		c.name = "struct with Option fields"
		v := c15rec{A: n1, B: c15Opt(r, def, s1), C: c15Opt(r, i2%2 == 0, ints[:i2%4+1]), D: c15Opt(r, i2%3 != 0, n2)}
		c15Run(c, v, c15rec{A: 9, B: fp.Some("pre")}, c15rec{A: 2}, nil, false, false)
	case 12:
		c.name = "Unit"
		c15Run(c, fp.Unit{}, fp.Unit{}, fp.Unit{}, nil, true, true)
	case 13:
		c.name = "[]Unit"
		v := make([]fp.Unit, i2%4)
		c15Run(c, v, []fp.Unit{{}}, []fp.Unit{{}, {}}, nil, false, false)
	case 14:
		c.name = "Option[Unit]"
		// Some(Unit) encodes as null like None: excluded by the property; only None round-trips
		c15Run(c, fp.None[fp.Unit](), c15Opt(r, preDef, fp.Unit{}), fp.None[fp.Unit](), nil, false, true)
	case 16, 17, 18, 19:
		c15Generated(c, kind, s1, s2, i1, i3, preDef)
	case 20:
		c.name = "Option[json.RawMessage]"
		raws := []string{`{"a":1,"b":[true,null]}`, `"text"`, `12.5`, `[1,2,3]`, `{}`, `[]`, `true`}
		raw := json.RawMessage(raws[i2%len(raws)])
		v := c15Opt(r, def, raw)
		c15Run(c, v, c15Opt(r, preDef, json.RawMessage(`"pre"`)), c15Opt(r, true, json.RawMessage(`0`)), any(raw), def, true)
	case 21:
		// defined scalar types with their own text / JSON form: Some(v) must encode exactly as v does
		c.name = "Option[defined int with MarshalText]"
		lv := c15Level(i2 % 3)
		v := c15Opt(r, def, lv)
		c15Run(c, v, c15Opt(r, preDef, c15Level(2)), c15Opt(r, true, c15Level(1)), any(lv), def, true)
		c15Null(c, v, def)
	case 22:
		c.name = "Option[defined bool with MarshalJSON]"
		fl := c15Flag(i2%2 == 0)
		v := c15Opt(r, def, fl)
		c15Run(c, v, c15Opt(r, preDef, c15Flag(true)), c15Opt(r, true, c15Flag(false)), any(fl), def, true)
		c15Null(c, v, def)
	case 23:
		c.name = "Option[defined uint8 with MarshalText]"
		cd := c15Code(i2)
		v := c15Opt(r, def, cd)
		c15Run(c, v, c15Opt(r, preDef, c15Code(9)), c15Opt(r, true, c15Code(1)), any(cd), def, true)
		c15Null(c, v, def)
	default:
		if kind >= c15BaseN {
			c15Fixture(c, kind-c15BaseN, s1, s2, i1, i3, preDef)
			return
		}
		c.name = "*Option[int] inside struct pointer"
		type holder struct {
			P *fp.Option[int] `json:"p"`
		}
		o := c15Opt(r, true, n1)
		c15Run(c, holder{P: &o}, holder{}, holder{}, nil, false, false)
	}
}

// c15Generated: the @fp.Json value types committed in the repository (generated by gombok), reached through the
// tag-guarded alias package test/verifjson. Besides the round trip and the fault classes, the emitted bytes must be
// exactly what encoding/json emits for the public Mutable twin.
func c15Generated(c *c15ctx, kind int, s1, s2 string, i1, i3 int, preDef bool) {
	r := c.r
	c.freshFF = true
	ts := func(k int) time.Time {
		switch k % 5 {
		case 0:
			return time.Time{}
		case 1:
			return time.Unix(int64(i3)*977, int64(i3%1000)*1000003).UTC()
		case 2:
			return time.Unix(1<<31+int64(i1), 0).UTC()
		case 3:
			return time.Unix(-int64(i3), 999999999).UTC()
		}
		return time.Unix(int64(i1), 500).UTC()
	}
	s3 := c15Strings[r.Choose(len(c15Strings), "s3")]
	mkWorld := func(a, b string, k int) verifjson.World {
		return verifjson.WorldMutable{Message: a, Timestamp: ts(k), Pub: b}.AsImmutable()
	}
	var preW verifjson.World
	var preA verifjson.Address
	var preG verifjson.Greeting
	if preDef {
		preW = mkWorld("pre", "prePub", 4)
		preA = verifjson.AddressMutable{Country: "pre", City: "preCity", Street: "preStreet"}.AsImmutable()
		preG = verifjson.GreetingMutable{Hello: preW, Language: "pre"}.AsImmutable()
	}
	switch kind {
	case 16:
		c.name = "@fp.Json World"
		v := mkWorld(s1, s2, i3)
		c15Run(c, v, preW, mkWorld("o", "", 1), any(v.AsMutable()), true, true)
	case 17:
		c.name = "@fp.Json Address"
		v := verifjson.AddressMutable{Country: s1, City: s2, Street: s3}.AsImmutable()
		c15Run(c, v, preA, verifjson.AddressMutable{City: "o"}.AsImmutable(), any(v.AsMutable()), true, true)
	case 18:
		c.name = "@fp.Json Greeting (nested @fp.Json World)"
		v := verifjson.GreetingMutable{Hello: mkWorld(s1, s2, i3), Language: s3}.AsImmutable()
		c15Run(c, v, preG, verifjson.GreetingMutable{Language: "o"}.AsImmutable(), any(v.AsMutable()), true, true)
	default:
		c.name = "[]@fp.Json Address / map[string]World"
		c.freshFF = false
		if i3%2 == 0 {
			v := []verifjson.Address{verifjson.AddressMutable{Country: s1}.AsImmutable(), verifjson.AddressMutable{City: s2, Street: s3}.AsImmutable()}[:1+i1&1]
			plain := make([]verifjson.AddressMutable, len(v))
			for i := range v {
				plain[i] = v[i].AsMutable()
			}
			c15Run(c, v, []verifjson.Address{preA}, []verifjson.Address{}, any(plain), true, false)
		} else {
			v := map[string]verifjson.World{"k": mkWorld(s1, s2, i3), s3: mkWorld("", "", 0)}
			plain := map[string]verifjson.WorldMutable{}
			for k, w := range v {
				plain[k] = w.AsMutable()
			}
			c15Run(c, v, map[string]verifjson.World{"pre": preW}, map[string]verifjson.World{}, any(plain), true, false)
		}
	}
}

// c15Dump prints a value field by field (a struct that embeds a Stringer would otherwise print as that Stringer only).
func c15Dump(v any) string {
	rv := reflect.ValueOf(v)
	if !rv.IsValid() || rv.Kind() != reflect.Struct {
		return fmt.Sprintf("%#v", v)
	}
	var sb strings.Builder
	sb.WriteString(rv.Type().String() + "{")
	for i := 0; i < rv.NumField(); i++ {
		if i > 0 {
			sb.WriteString(", ")
		}
		fmt.Fprintf(&sb, "%s:%v", rv.Type().Field(i).Name, rv.Field(i))
	}
	sb.WriteString("}")
	return sb.String()
}

// c15Null: None <=> null, both ways.
func c15Null[T any](c *c15ctx, v fp.Option[T], def bool) {
	r := c.r
	if r.Failed() {
		return
	}
	b, _ := json.Marshal(v)
	if (string(b) == "null") != !def {
		r.Violate("none-null:"+c.name, "%s: %v encodes as %s", c.name, v, b)
		return
	}
	pre := v
	if err := json.Unmarshal([]byte("null"), &pre); err != nil || pre.IsDefined() {
		r.Violate("none-null:"+c.name, "%s: null decodes to %v (err %v), want None", c.name, pre, err)
	}
}
