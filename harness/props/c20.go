package props

import (
	"fmt"
	"slices"
	"sort"
	"strings"
	"time"

	"github.com/csgura/fp"
	"github.com/csgura/fp/as"
	"github.com/csgura/fp/hash"
	"github.com/csgura/fp/immutable"
	"github.com/csgura/fp/iterator"
	"github.com/csgura/fp/list"
	"github.com/csgura/fp/mutable"
	"github.com/csgura/fp/option"
	"github.com/csgura/fp/seq"
	"github.com/csgura/fp/try"
	"verif/harness/sim"
)

func init() {
	Register(&Prop{
		ID:    "C20",
		Level: "exploration",
		Rule: "run classes: (two-sided) Duplicate/Span/Partition over an instrumented source (0-12 elements, or unbounded) that counts pulls, detects concurrent use and, " +
			"as a fault, stalls inside HasNext/Next while the library's mutex is held; optional combinators (Take/Map/Filter/Concat/...) on top of either output; two consumer tasks " +
			"follow seeded call scripts (HasNext x1-3 before each Next, early stop, Next on exhausted must panic) and are interleaved call by call - and mid-call when the source stalls, " +
			"the other side then really blocks on the mutex. (one-sided) the same consumer script over a seeded pipeline of iterator-producing functions and combinators against a slice reference. " +
			"(unordered) iterators of immutable/mutable/Go maps and sets compared as multisets. (zero) every method of the zero-value Iterator. " +
			"non-trivial (two-sided) = the consumers alternated at least twice; distinct = hash of (scenario, input, call scripts, schedule).",
		Assumptions: []string{
			"how far ahead a combinator may pull from its source is C12's question and is not part of this oracle",
			"a consumer calls HasNext at least once before each Next that is expected to deliver (the statement only promises Next after a true HasNext); the final Next on an exhausted iterator must panic whether or not a HasNext observed the exhaustion first (both variants are drawn)",
		},
		Real:     []string{"fp.Iterator and its methods", "iterator package (Duplicate/Span/Partition and constructors/combinators)", "immutable/mutable map and set iterators", "seq/option/try Iterator"},
		Stub:     []string{"Go scheduler between consumer calls and inside stalled source calls (seeded)", "source iterator (instrumented)", "consumers"},
		Quick:    Budget{Runs: 1200000, Wall: 45 * time.Second},
		Thorough: Budget{Runs: 60000000, Wall: 25 * time.Minute},
		Exec:     execC20,
	})
}

// ---------------------------------------------------------------- combinators with a slice reference

type c20op struct {
	name  string
	apply func(it fp.Iterator[int]) fp.Iterator[int]
	ref   func(xs []int) []int
}

func c20pred(k int) func(int) bool {
	switch k {
	case 0:
		return func(v int) bool { return v%2 == 0 }
	case 1:
		return func(v int) bool { return v < 3 }
	case 2:
		return func(v int) bool { return v%3 != 0 }
	case 3:
		return func(v int) bool { return true }
	}
	return func(v int) bool { return false }
}

func refFilter(xs []int, p func(int) bool) []int {
	out := []int{}
	for _, v := range xs {
		if p(v) {
			out = append(out, v)
		}
	}
	return out
}

func refTakeWhile(xs []int, p func(int) bool) []int {
	for i, v := range xs {
		if !p(v) {
			return xs[:i]
		}
	}
	return xs
}

func refDropWhile(xs []int, p func(int) bool) []int {
	for i, v := range xs {
		if !p(v) {
			return xs[i:]
		}
	}
	return []int{}
}

// c20Op draws one combinator. finiteOnly excludes nothing at present (all references work on a prefix).
func c20Op(r *sim.Run) c20op {
	k := r.Choose(25, "comb")
	a := r.Choose(5, "arg")
	p := c20pred(a)
	not := func(v int) bool { return !p(v) }
	mapf := func(v int) int { return v*3 + a }
	switch k {
	case 0:
		n := a - 1 // -1..3: a negative count takes nothing
		return c20op{fmt.Sprintf("Take(%d)", n), func(it fp.Iterator[int]) fp.Iterator[int] { return it.Take(n) }, func(xs []int) []int { return xs[:max(0, min(n, len(xs)))] }}
	case 1:
		return c20op{fmt.Sprintf("TakeWhile(p%d)", a), func(it fp.Iterator[int]) fp.Iterator[int] { return it.TakeWhile(p) }, func(xs []int) []int { return refTakeWhile(xs, p) }}
	case 2:
		n := a - 1 // -1..3: a negative count drops nothing
		return c20op{fmt.Sprintf("Drop(%d)", n), func(it fp.Iterator[int]) fp.Iterator[int] { return it.Drop(n) }, func(xs []int) []int { return xs[max(0, min(n, len(xs))):] }}
	case 3:
		return c20op{fmt.Sprintf("DropWhile(p%d)", a), func(it fp.Iterator[int]) fp.Iterator[int] { return it.DropWhile(p) }, func(xs []int) []int { return refDropWhile(xs, p) }}
	case 4:
		return c20op{fmt.Sprintf("Filter(p%d)", a), func(it fp.Iterator[int]) fp.Iterator[int] { return it.Filter(p) }, func(xs []int) []int { return refFilter(xs, p) }}
	case 5:
		return c20op{fmt.Sprintf("FilterNot(p%d)", a), func(it fp.Iterator[int]) fp.Iterator[int] { return it.FilterNot(p) }, func(xs []int) []int { return refFilter(xs, not) }}
	case 6:
		return c20op{"Map", func(it fp.Iterator[int]) fp.Iterator[int] { return it.Map(mapf) }, func(xs []int) []int { return refMap(xs, mapf) }}
	case 7:
		return c20op{"iterator.Map", func(it fp.Iterator[int]) fp.Iterator[int] { return iterator.Map(it, mapf) }, func(xs []int) []int { return refMap(xs, mapf) }}
	case 8, 9:
		fm := func(v int) []int {
			if v%3 == 0 {
				return nil
			}
			return []int{v, v + 1000}
		}
		ref := func(xs []int) []int {
			out := []int{}
			for _, v := range xs {
				out = append(out, fm(v)...)
			}
			return out
		}
		if k == 8 {
			return c20op{"FlatMap", func(it fp.Iterator[int]) fp.Iterator[int] {
				return it.FlatMap(func(v int) fp.Iterator[int] { return iterator.FromSlice(fm(v)) })
			}, ref}
		}
		return c20op{"iterator.FlatMap", func(it fp.Iterator[int]) fp.Iterator[int] {
			return iterator.FlatMap(it, func(v int) fp.Iterator[int] { return iterator.FromSlice(fm(v)) })
		}, ref}
	case 10:
		return c20op{"TapEach", func(it fp.Iterator[int]) fp.Iterator[int] { return it.TapEach(func(int) {}) }, func(xs []int) []int { return xs }}
	case 11:
		return c20op{"Appended", func(it fp.Iterator[int]) fp.Iterator[int] { return it.Appended(900 + a) }, func(xs []int) []int { return append(slices.Clone(xs), 900+a) }}
	case 12:
		return c20op{"Concat(Of)", func(it fp.Iterator[int]) fp.Iterator[int] { return it.Concat(iterator.Of(800, 801)) }, func(xs []int) []int { return append(slices.Clone(xs), 800, 801) }}
	case 13:
		// nested concat: exercises the flattening of Iterator.concat
		return c20op{"Concat(Concat)", func(it fp.Iterator[int]) fp.Iterator[int] {
			tail := iterator.Empty[int]().Concat(iterator.Of(700)).Concat(iterator.Empty[int]()).Concat(iterator.Of(701, 702))
			return it.Concat(tail)
		}, func(xs []int) []int {
			return append(slices.Clone(xs), 700, 701, 702)
		}}
	case 14:
		return c20op{"iterator.Concat(head)", func(it fp.Iterator[int]) fp.Iterator[int] { return iterator.Concat(600+a, it) }, func(xs []int) []int { return append([]int{600 + a}, xs...) }}
	case 15:
		return c20op{"Scan", func(it fp.Iterator[int]) fp.Iterator[int] {
			return iterator.Scan(it, a, func(acc, v int) int { return acc + v })
		}, func(xs []int) []int {
			out := []int{a}
			s := a
			for _, v := range xs {
				s += v
				out = append(out, s)
			}
			return out
		}}
	case 16:
		return c20op{"ZipWithIndex", func(it fp.Iterator[int]) fp.Iterator[int] {
			return iterator.Map(iterator.ZipWithIndex(it), func(t fp.Tuple2[int, int]) int { return t.I1*10000 + t.I2 })
		}, func(xs []int) []int {
			out := []int{}
			for i, v := range xs {
				out = append(out, i*10000+v)
			}
			return out
		}}
	case 17:
		return c20op{"Zip(Range)", func(it fp.Iterator[int]) fp.Iterator[int] {
			return iterator.Map(iterator.Zip(it, iterator.Range(0, 3+a)), func(t fp.Tuple2[int, int]) int { return t.I1*7 + t.I2 })
		}, func(xs []int) []int {
			out := []int{}
			for i, v := range xs {
				if i >= 3+a {
					break
				}
				out = append(out, v*7+i)
			}
			return out
		}}
	case 18:
		fm := func(v int) fp.Option[int] {
			if v%2 == 0 {
				return fp.Some(v * 2)
			}
			return fp.None[int]()
		}
		return c20op{"FilterMap", func(it fp.Iterator[int]) fp.Iterator[int] { return iterator.FilterMap(it, fm) }, func(xs []int) []int {
			out := []int{}
			for _, v := range xs {
				if v%2 == 0 {
					out = append(out, v*2)
				}
			}
			return out
		}}
	case 19:
		return c20op{"Flatten", func(it fp.Iterator[int]) fp.Iterator[int] {
			return iterator.Flatten(iterator.Map(it, func(v int) fp.Iterator[int] { return iterator.Of(v, v) }))
		}, func(xs []int) []int {
			out := []int{}
			for _, v := range xs {
				out = append(out, v, v)
			}
			return out
		}}
	case 22:
		return c20op{"iterator.Ap", func(it fp.Iterator[int]) fp.Iterator[int] {
			return iterator.Ap(iterator.Of(fp.Func1[int, int](mapf)), it)
		}, func(xs []int) []int { return refMap(xs, mapf) }}
	case 23:
		return c20op{"iterator.Map2", func(it fp.Iterator[int]) fp.Iterator[int] {
			return iterator.Map2(iterator.Of(a), it, func(x, y int) int { return x*1000 + y })
		}, func(xs []int) []int { return refMap(xs, func(v int) int { return a*1000 + v }) }}
	case 24:
		return c20op{"iterator.Compose", func(it fp.Iterator[int]) fp.Iterator[int] {
			return iterator.Compose(func(int) fp.Iterator[int] { return it }, func(v int) fp.Iterator[int] { return iterator.Of(v, v+1000) })(a)
		}, func(xs []int) []int {
			out := []int{}
			for _, v := range xs {
				out = append(out, v, v+1000)
			}
			return out
		}}
	case 20:
		return c20op{"Lift", func(it fp.Iterator[int]) fp.Iterator[int] { return iterator.Lift(mapf)(it) }, func(xs []int) []int { return refMap(xs, mapf) }}
	default:
		return c20op{"Zip3", func(it fp.Iterator[int]) fp.Iterator[int] {
			return iterator.Map(iterator.Zip3(iterator.Range(0, 100), it, iterator.Range(5, 5+2+a)), func(t fp.Tuple3[int, int, int]) int { return t.I1*100000 + t.I2*100 + t.I3 })
		}, func(xs []int) []int {
			out := []int{}
			for i, v := range xs {
				if i >= 2+a {
					break
				}
				out = append(out, i*100000+v*100+5+i)
			}
			return out
		}}
	}
}

var c20SafeOnUnbounded = map[string]bool{"Map": true, "iterator.Map": true, "TapEach": true, "Scan": true, "ZipWithIndex": true,
	"Zip(Range)": true, "Zip3": true, "Lift": true, "iterator.Concat(head)": true, "Flatten": true, "iterator.Ap": true, "iterator.Map2": true, "iterator.Compose": true}

// c20OpaqueOp: iterator-producing functions whose CONTENT the property does not fix (the Flap family applies every
// function of an iterator of functions to one shared, one-shot argument iterator). ref == nil: the reference is what a
// twin of the same pipeline delivers when it is drained in the canonical way (HasNext, Next, HasNext, ...); the scripted
// call pattern - repeated HasNext, blind Next at the end, extension - must deliver exactly that.
func c20OpaqueOp(r *sim.Run) c20op {
	a := r.Choose(5, "arg")
	switch r.Choose(5, "opaque") {
	case 0:
		return c20op{"iterator.FlapMap", func(it fp.Iterator[int]) fp.Iterator[int] {
			return iterator.FlapMap(func(v, b int) int { return v*3 + b }, it)(a)
		}, nil}
	case 1:
		return c20op{"iterator.Method1", func(it fp.Iterator[int]) fp.Iterator[int] {
			return iterator.Method1(it, func(v, b int) int { return v*3 + b })(a)
		}, nil}
	case 2:
		return c20op{"iterator.Method2", func(it fp.Iterator[int]) fp.Iterator[int] {
			return iterator.Method2(it, func(v, b, c int) int { return v*3 + b + 10*c })(a, 1)
		}, nil}
	case 3:
		return c20op{"iterator.Flap2", func(it fp.Iterator[int]) fp.Iterator[int] {
			fs := iterator.Map(it, func(v int) fp.Func1[int, fp.Func1[int, int]] {
				return func(b int) fp.Func1[int, int] { return func(c int) int { return v*3 + b + 10*c } }
			})
			return iterator.Flap2(fs)(a)(1)
		}, nil}
	default:
		return c20op{"iterator.Flap", func(it fp.Iterator[int]) fp.Iterator[int] {
			fs := iterator.Map(it, func(v int) fp.Func1[int, int] { return func(b int) int { return v*3 + b } })
			return iterator.Flap(fs)(a)
		}, nil}
	}
}

func refMap(xs []int, f func(int) int) []int {
	out := make([]int, len(xs))
	for i, v := range xs {
		out[i] = f(v)
	}
	return out
}

// ---------------------------------------------------------------- instrumented source

type c20src struct {
	r        *sim.Run
	n        int // number of elements; -1 = unbounded
	idx      int
	inUse    bool
	stallHas int // stalls per HasNext call
	stallNxt int
	hasCalls int
	pulls    int
}

func c20val(i int) int { return i }

func (s *c20src) enter(what string) {
	s.r.Gate("src")
	if s.inUse {
		s.r.Violate("source-concurrent-use", "the source iterator was entered (%s) while another call on it was in progress", what)
	}
	s.inUse = true
}

func (s *c20src) stall(n int, where string) {
	if t := s.r.CurrentTask(); t != nil {
		for i := 0; i < n; i++ {
			s.r.Fault("source-stall")
			t.Yield("stall:" + where)
		}
	}
}

func (s *c20src) iter() fp.Iterator[int] {
	return fp.MakeIterator(func() bool {
		s.enter("HasNext")
		defer func() { s.inUse = false }()
		s.hasCalls++
		s.stall(s.stallHas, "src.HasNext")
		return s.n < 0 || s.idx < s.n
	}, func() int {
		s.enter("Next")
		defer func() { s.inUse = false }()
		s.stall(s.stallNxt, "src.Next")
		if s.n >= 0 && s.idx >= s.n {
			s.r.Probe("source-next-on-exhausted")
			panic("next on empty iterator (source)")
		}
		v := c20val(s.idx)
		s.idx++
		s.pulls++
		return v
	})
}

// ---------------------------------------------------------------- consumer

type c20script struct {
	demand int   // how many elements the consumer wants
	has    []int // HasNext calls before each Next (>=1)
	// blindEnd: once the reference says the iterator is exhausted the consumer calls Next straight away, without a
	// HasNext that could observe the exhaustion first (a caller that knows the size and pulls once too often)
	blindEnd bool
	// gcBefore >= 0: injected fault - a full garbage collection, finalizers included, runs right before this call of
	// the consumer (the pull-based iterators of the library carry a finalizer that stops their coroutine)
	gcBefore int
	// extendAt >= 0 (one-sided finite pipelines only): queue-style use - after this many delivered elements the
	// consumer extends the partly read iterator (Concat / Appended at the tail, or a Concat in front of the rest)
	// and goes on reading the result
	extendAt   int
	extendKind int
	// rangeAt >= 0: at this position the consumer, after its HasNext calls (so with a look-ahead pending), does not call
	// Next but ranges over All() and breaks after rangeTake elements; it then goes on with HasNext/Next
	rangeAt   int
	rangeTake int
}

func c20Script(r *sim.Run, maxDemand int) c20script {
	s := c20script{demand: r.Choose(maxDemand+2, "demand")}
	for i := 0; i <= s.demand; i++ {
		s.has = append(s.has, 1+r.ChooseWith(3, "nHas", func(g *sim.Rng) int {
			if g.Intn(3) == 0 {
				return 1 + g.Intn(2)
			}
			return 0
		}))
	}
	s.blindEnd = r.Bool(1, 3, "blindEnd")
	s.extendAt = -1
	if r.Bool(1, 5, "extendWhileReading") {
		s.extendAt = r.Choose(maxDemand+1, "extendAt")
		s.extendKind = r.Choose(3, "extendKind")
	}
	s.rangeAt = -1
	if r.Bool(1, 5, "rangeWhileReading") {
		s.rangeAt = r.Choose(maxDemand+1, "rangeAt")
		s.rangeTake = 1 + r.Choose(3, "rangeTake")
	}
	s.gcBefore = -1
	if r.Bool(1, 40, "gcFault") {
		s.gcBefore = r.Choose(2*maxDemand+3, "gcBefore")
	}
	return s
}

type c20side struct {
	name     string
	it       fp.Iterator[int]
	ref      []int
	complete bool // ref is the complete expected sequence (false: only a prefix is known, source unbounded)
	sc       c20script
	got      []int
	drained  bool
	calls    int
	// extendable: the script's extendAt applies (one-sided pipelines over a finite source)
	extendable bool
}

// consume follows the script; every library call is preceded by a scheduling point.
func (c *c20side) consume(r *sim.Run, t *sim.Task, onCall func()) {
	call := func(f func()) (panicked any) {
		t.Yield("call")
		onCall()
		if c.calls == c.sc.gcBefore {
			r.Fault("gc-cycle-with-finalizers")
			sim.GCNow()
		}
		c.calls++
		defer func() {
			panicked = recover()
			r.Gate("ret")
		}()
		f()
		return nil
	}
	for i := 0; i < c.sc.demand; i++ {
		if !c.complete && i >= len(c.ref) {
			return
		}
		if c.extendable && i == c.sc.extendAt && i <= len(c.ref) {
			extra := []int{7001 + i, 7002 + i}
			rest := append([]int(nil), c.ref[i:]...)
			switch c.sc.extendKind {
			case 0:
				c.it = c.it.Concat(fp.IteratorOfSeq(extra))
				c.ref = append(append(append([]int(nil), c.ref[:i]...), rest...), extra...)
				c.name += ".Concat(2 more) after " + fmt.Sprint(i) + " delivered"
			case 1:
				c.it = c.it.Appended(extra[0])
				c.ref = append(append(append([]int(nil), c.ref[:i]...), rest...), extra[0])
				c.name += ".Appended(1 more) after " + fmt.Sprint(i) + " delivered"
			default:
				c.it = fp.IteratorOfSeq(extra).Concat(c.it)
				c.ref = append(append(append([]int(nil), c.ref[:i]...), extra...), rest...)
				c.name += " put behind 2 new elements after " + fmt.Sprint(i) + " delivered"
			}
			r.Probe("partly-read-iterators-extended")
		}
		more := i < len(c.ref)
		nHas := c.sc.has[i]
		if !more && c.sc.blindEnd {
			nHas = 0
			r.Probe("next-on-exhausted-without-hasnext")
		}
		for h := 0; h < nHas; h++ {
			var b bool
			if p := call(func() { b = c.it.HasNext() }); p != nil {
				r.Violate("hasnext-panic", "%s: HasNext panicked at position %d: %v", c.name, i, p)
				return
			}
			if b != more {
				r.Violate("hasnext-wrong", "%s: HasNext call #%d at position %d returned %v, reference has %d element(s) %v, delivered so far %v", c.name, h+1, i, b, len(c.ref), c.ref, c.got)
				return
			}
		}
		if !more {
			c.drained = true
			var v int
			p := call(func() { v = c.it.Next() })
			if p == nil {
				r.Violate("next-fabricated", "%s: Next on the exhausted iterator returned %d instead of panicking (delivered %v)", c.name, v, c.got)
			}
			return
		}
		if i == c.sc.rangeAt {
			// a range over All() in the middle of a HasNext/Next conversation (early break)
			var seen []int
			take := c.sc.rangeTake
			if !c.complete {
				take = min(take, len(c.ref)-i) // only a prefix of the unbounded sequence is known
			}
			p := call(func() {
				for v := range c.it.All() {
					seen = append(seen, v)
					if len(seen) >= take {
						break
					}
				}
			})
			r.Probe("ranges-over-All-in-the-middle-of-a-script")
			if p != nil {
				r.Violate("next-panic", "%s: ranging over All() at position %d (after %d HasNext call(s)) panicked after %v: %v", c.name, i, nHas, seen, p)
				return
			}
			want := c.ref[i:min(len(c.ref), i+take)]
			c.got = append(c.got, seen...)
			if fmt.Sprint(seen) != fmt.Sprint(want) {
				r.Violate("wrong-element", "%s: ranging over All() at position %d (break after %d) delivered %v, reference %v (all delivered %v, reference %v)", c.name, i, take, seen, want, c.got, c.ref)
				return
			}
			i += len(seen) - 1
			continue
		}
		var v int
		if p := call(func() { v = c.it.Next() }); p != nil {
			r.Violate("next-panic", "%s: Next after a true HasNext panicked at position %d: %v", c.name, i, p)
			return
		}
		c.got = append(c.got, v)
		if v != c.ref[i] {
			r.Violate("wrong-element", "%s: delivered %v, reference %v", c.name, c.got, c.ref)
			return
		}
	}
}

// ---------------------------------------------------------------- run classes

func execC20(r *sim.Run) {
	switch r.ChooseWith(4, "class", func(g *sim.Rng) int {
		x := g.Intn(100)
		switch {
		case x < 55:
			return 0
		case x < 85:
			return 1
		case x < 95:
			return 2
		}
		return 3
	}) {
	case 0:
		c20TwoSided(r)
	case 1:
		if r.Bool(1, 8, "faultySource") {
			c20FaultySource(r)
			return
		}
		c20OneSided(r)
	case 2:
		c20Unordered(r)
	default:
		c20Zero(r)
	}
}

func c20Quiesce(r *sim.Run) bool {
	r.RunToQuiescence()
	if r.Failed() {
		return false
	}
	if bl := r.BlockedTasks(); len(bl) > 0 {
		r.Violate("deadlock", "%d consumer(s) blocked on the iterator's lock at quiescence", len(bl))
		return false
	}
	for _, t := range r.Unfinished() {
		r.Violate("stuck-task", "task %d:%s not finished (parked at %s)", t.ID, t.Name, t.ParkLabel())
		return false
	}
	return true
}

func c20TwoSided(r *sim.Run) {
	kind := r.Choose(3, "twoKind") // Duplicate / Span / Partition
	names := [...]string{"Duplicate", "Span", "Partition"}
	r.Case = "two-sided:" + names[kind]
	src := &c20src{r: r}
	if r.Choose(6, "unbounded") == 5 {
		src.n = -1
		r.Case += ":unbounded"
	} else {
		src.n = r.Choose(13, "n")
	}
	if r.Choose(3, "stalls") == 2 {
		src.stallHas = r.Choose(2, "stallHas")
		src.stallNxt = r.Choose(3, "stallNxt")
	}
	// reference input (a prefix of 64 elements when unbounded)
	m := src.n
	if m < 0 {
		m = 64
	}
	xs := make([]int, m)
	for i := range xs {
		xs[i] = c20val(i)
	}
	pk := r.Choose(3, "pred") // p0 even, p1 <3, p2 not multiple of 3
	if src.n < 0 && kind == 2 && pk == 1 {
		pk = 0 // on the unbounded source both partitions must match infinitely often (look-ahead is C12's question)
	}
	p := c20pred(pk)
	var l, rt fp.Iterator[int]
	var lref, rref []int
	switch kind {
	case 0:
		l, rt = iterator.Duplicate(src.iter())
		lref, rref = xs, xs
	case 1:
		l, rt = iterator.Span(src.iter(), p)
		lref, rref = refTakeWhile(xs, p), refDropWhile(xs, p)
	default:
		l, rt = iterator.Partition(src.iter(), p)
		lref, rref = refFilter(xs, p), refFilter(xs, func(v int) bool { return !p(v) })
	}
	left := &c20side{name: "left", it: l, ref: lref, complete: src.n >= 0}
	right := &c20side{name: "right", it: rt, ref: rref, complete: src.n >= 0}
	if kind == 1 && pk == 1 {
		left.complete = true // TakeWhile(v<3) is finite even on the unbounded source
	}
	desc := fmt.Sprintf("%s(n=%d,p%d)", names[kind], src.n, pk)
	// optional combinators on top of either output (built on the driver: eager ones such as Drop pull now)
	for _, s := range []*c20side{left, right} {
		for k := r.Choose(3, "post"); k > 0; k-- {
			op := c20Op(r)
			if !s.complete && !c20SafeOnUnbounded[op.name] {
				continue // skipping combinators could look ahead forever on an unbounded input
			}
			func() {
				defer func() {
					if e := recover(); e != nil {
						r.Violate("combinator-panic", "%s on the %s output of %s panicked: %v", op.name, s.name, desc, e)
					}
				}()
				s.it = op.apply(s.it)
			}()
			s.ref = op.ref(s.ref)
			desc += fmt.Sprintf(" %s.%s", s.name, op.name)
		}
	}
	if r.Failed() {
		return
	}
	maxD := 6
	if src.n >= 0 {
		maxD = src.n + 2
	}
	left.sc, right.sc = c20Script(r, maxD), c20Script(r, maxD)
	r.MixFingerprintS(desc)
	r.MixFingerprintS(fmt.Sprint(left.sc, right.sc))
	r.Logf("scenario: %s; left script %v, right script %v", desc, left.sc, right.sc)

	lastSide, alternations := "", 0
	mark := func(s string) func() {
		return func() {
			if lastSide != "" && lastSide != s {
				alternations++
			}
			lastSide = s
		}
	}
	r.Go("left", func(t *sim.Task) { left.consume(r, t, mark("L")) })
	r.Go("right", func(t *sim.Task) { right.consume(r, t, mark("R")) })
	if !c20Quiesce(r) {
		return
	}
	if alternations >= 2 {
		r.NonTrivial()
	}
	// pulls: nothing is pulled twice by construction of the source; once both sides are drained of a finite
	// source every element has been pulled exactly once
	if src.n >= 0 && left.drained && right.drained && len(left.got) == len(left.ref) && len(right.got) == len(right.ref) {
		r.Probe("both-sides-drained")
		if kind != 1 && src.pulls != src.n && desc == fmt.Sprintf("%s(n=%d,p%d)", names[kind], src.n, pk) {
			r.Violate("pull-count", "%s: both sides drained but the source was pulled %d time(s) for %d element(s)", desc, src.pulls, src.n)
		}
	}
	if src.pulls > m && src.n >= 0 {
		r.Violate("pull-count", "%s: source pulled %d times for %d elements", desc, src.pulls, src.n)
	}
}

func c20OneSided(r *sim.Run) {
	r.Case = "one-sided"
	n := r.Choose(9, "n")
	xs := make([]int, n)
	for i := range xs {
		xs[i] = r.Choose(10, "x")
	}
	base := r.Choose(19, "base")
	// mkBase builds the source iterator afresh on every call (a pipeline whose content the property does not fix is
	// compared with a twin of itself, see c20OpaqueOp)
	mkBase := func() (it fp.Iterator[int], ref []int, desc string) {
		ref = slices.Clone(xs)
		switch base {
		case 0:
			it, desc = iterator.FromSlice(xs), "FromSlice"
		case 1:
			it, desc = iterator.FromSeq(fp.Seq[int](xs)), "FromSeq"
		case 2:
			it, desc = iterator.Of(xs...), "Of"
		case 3:
			it, desc = fp.IteratorOfSeq(xs), "IteratorOfSeq"
		case 4:
			it, desc = iterator.FromList(list.Of(xs...)), "FromList"
		case 5:
			it, desc = iterator.ReverseSeq(xs), "ReverseSeq"
			slices.Reverse(ref)
		case 6:
			it, desc = iterator.Range(2, 2+n), "Range"
			ref = ref[:0]
			for i := 2; i < 2+n; i++ {
				ref = append(ref, i)
			}
		case 7:
			it, desc = iterator.RangeClosed(2, 1+n), "RangeClosed"
			ref = ref[:0]
			for i := 2; i <= 1+n; i++ {
				ref = append(ref, i)
			}
		case 8:
			it, desc = iterator.Pull(slices.Values(xs)), "Pull"
		case 9:
			if n > 0 {
				it, ref, desc = iterator.FromOption(fp.Some(xs[0])), []int{xs[0]}, "FromOption(Some)"
			} else {
				it, ref, desc = iterator.FromOption(fp.None[int]()), []int{}, "FromOption(None)"
			}
		case 10:
			if n > 0 {
				v := xs[0]
				it, ref, desc = iterator.FromPtr(&v), []int{v}, "FromPtr"
			} else {
				it, ref, desc = iterator.FromPtr[int](nil), []int{}, "FromPtr(nil)"
			}
		case 11:
			it, ref, desc = iterator.Empty[int](), []int{}, "Empty"
		case 12:
			it, desc = seq.Iterator(fp.Seq[int](xs)), "seq.Iterator"
		case 13:
			if n > 0 {
				it, ref, desc = option.Iterator(fp.Some(xs[0])), []int{xs[0]}, "option.Iterator(Some)"
			} else {
				it, ref, desc = option.Iterator(fp.None[int]()), []int{}, "option.Iterator(None)"
			}
		case 14:
			if n > 0 {
				it, ref, desc = try.Iterator(fp.Success(xs[0])), []int{xs[0]}, "try.Iterator(Success)"
			} else {
				it, ref, desc = try.Iterator(fp.Failure[int](fmt.Errorf("x"))), []int{}, "try.Iterator(Failure)"
			}
		case 16:
			it, desc = iterator.List(list.Of(xs...)), "iterator.List"
		case 17:
			it, desc = iterator.ReverseSlice(xs), "ReverseSlice"
			slices.Reverse(ref)
		case 18:
			if n > 0 {
				it, ref, desc = iterator.ComposePure(func(v int) int { return v + 1 })(xs[0]), []int{xs[0] + 1}, "ComposePure"
			} else {
				it, ref, desc = iterator.ComposePure(func(v int) int { return v + 1 })(0), []int{1}, "ComposePure"
			}
		default:
			src := &c20src{r: r, n: n}
			it, desc = src.iter(), "MakeIterator"
			ref = ref[:0]
			for i := 0; i < n; i++ {
				ref = append(ref, c20val(i))
			}
		}
		return
	}
	var ops []c20op
	opaque := false
	for k := r.Choose(5, "pipeLen"); k > 0; k-- {
		if r.Bool(1, 6, "opaqueOp") {
			ops = append(ops, c20OpaqueOp(r))
			opaque = true
		} else {
			ops = append(ops, c20Op(r))
		}
	}
	build := func() (it fp.Iterator[int], ref []int, desc string) {
		it, ref, desc = mkBase()
		for _, op := range ops {
			func() {
				defer func() {
					if e := recover(); e != nil {
						r.Violate("combinator-panic", "%s after %s panicked: %v", op.name, desc, e)
					}
				}()
				it = op.apply(it)
			}()
			if op.ref != nil && ref != nil {
				ref = op.ref(ref)
			} else {
				ref = nil
			}
			desc += "." + op.name
		}
		return
	}
	it, ref, desc := build()
	if r.Failed() {
		return
	}
	if opaque {
		// reference: a twin of the pipeline, drained in the canonical way
		twin, _, _ := build()
		ref = []int{}
		func() {
			defer func() {
				if e := recover(); e != nil {
					r.Violate("iterator-panic", "%s: draining the pipeline with alternating HasNext/Next panicked after %v: %v", desc, ref, e)
				}
			}()
			for twin.HasNext() {
				ref = append(ref, twin.Next())
				if len(ref) > 10000 {
					r.Violate("hasnext-wrong", "%s: a pipeline over %d elements delivered more than 10000", desc, n)
					return
				}
			}
		}()
		if r.Failed() {
			return
		}
		r.Probe("pipelines compared with a canonically drained twin")
	}
	if r.Bool(1, 8, "terminal") {
		c20Terminal(r, it, ref, desc)
		return
	}
	side := &c20side{name: desc, it: it, ref: ref, complete: true, sc: c20Script(r, len(ref)+3), extendable: true}
	r.MixFingerprintS(desc)
	r.MixFingerprintS(fmt.Sprint(xs, side.sc))
	r.Logf("pipeline: %s over %v, script %v, reference %v", desc, xs, side.sc, ref)
	r.Go("consumer", func(t *sim.Task) { side.consume(r, t, func() {}) })
	c20Quiesce(r)
}

// c20Terminal: the draining methods of fp.Iterator as consumers (Count, Foreach, Exists, ForAll, MakeString, Find, the
// range function All with an early break), followed by a drain of whatever the method left in the iterator.
func c20Terminal(r *sim.Run, it fp.Iterator[int], ref []int, desc string) {
	k := r.Choose(7, "terminalKind")
	a := r.Choose(5, "terminalArg")
	p := c20pred(a)
	names := [...]string{"Count", "Foreach", "Exists", "ForAll", "MakeString", "Find", "All+break"}
	r.MixFingerprintS(desc + "|" + names[k])
	r.Logf("pipeline: %s, terminal %s(p%d), reference %v", desc, names[k], a, ref)
	r.Go("consumer", func(t *sim.Task) {
		var got, want string
		rest := []int{} // what the method must leave in the iterator
		defer func() {
			if e := recover(); e != nil {
				r.Gate("ret")
				r.Violate("iterator-panic", "%s: %s panicked: %v", desc, names[k], e)
			}
		}()
		firstIdx := func(q func(int) bool) int {
			for i, v := range ref {
				if q(v) {
					return i
				}
			}
			return -1
		}
		switch k {
		case 0:
			got, want = fmt.Sprint(it.Count()), fmt.Sprint(len(ref))
		case 1:
			seen := []int{}
			it.Foreach(func(v int) { seen = append(seen, v) })
			got, want = fmt.Sprint(seen), fmt.Sprint(ref)
		case 2:
			i := firstIdx(p)
			got, want = fmt.Sprint(it.Exists(p)), fmt.Sprint(i >= 0)
			if i >= 0 {
				rest = ref[i+1:]
			}
		case 3:
			i := firstIdx(func(v int) bool { return !p(v) })
			got, want = fmt.Sprint(it.ForAll(p)), fmt.Sprint(i < 0)
			if i >= 0 {
				rest = ref[i+1:]
			}
		case 4:
			parts := make([]string, len(ref))
			for i, v := range ref {
				parts[i] = fmt.Sprint(v)
			}
			got, want = it.MakeString(","), strings.Join(parts, ",")
		case 5:
			i := firstIdx(p)
			got = fmt.Sprint(it.Find(p))
			if i >= 0 {
				want, rest = fmt.Sprint(fp.Some(ref[i])), ref[i+1:]
			} else {
				want = fmt.Sprint(fp.None[int]())
			}
		default:
			seen := []int{}
			for v := range it.All() {
				seen = append(seen, v)
				if len(seen) > a {
					break
				}
			}
			m := min(a+1, len(ref))
			got, want, rest = fmt.Sprint(seen), fmt.Sprint(ref[:m]), ref[m:]
		}
		r.Gate("ret")
		if got != want {
			r.Violate("wrong-element", "%s: %s(p%d) gives %s, reference %s (elements %v)", desc, names[k], a, got, want, ref)
			return
		}
		left := it.ToSeq()
		r.Gate("ret")
		if fmt.Sprint([]int(left)) != fmt.Sprint(rest) {
			r.Violate("wrong-element", "%s: after %s(p%d) the iterator still delivers %v, reference %v (elements %v)", desc, names[k], a, left, rest, ref)
		}
	})
	c20Quiesce(r)
}

// c20FaultySource: injected fault - one Next of a source fails (panics) once, the consumer recovers and carries on, as
// with an I/O error that goes away. Sources are the inner iterators of FlatMap / Flatten / Concat pipelines or the outer
// source. After the fault the iterator may have lost elements of the faulted source from the fault position on,
// nothing else: everything it delivers is the reference in order, a true HasNext is followed by a Next that
// delivers, HasNext stays idempotent, and the iterator ends (HasNext false, Next panics) within a bounded number of calls.
type c20fault struct{}

func c20FaultySource(r *sim.Run) {
	r.Case = "faulty-source"
	n := 1 + r.Choose(5, "n")
	type el struct{ src, idx, v int }
	var ref []el
	sizes := make([]int, n)
	for j := range sizes {
		sizes[j] = r.Choose(4, "innerLen")
		for k := 0; k < sizes[j]; k++ {
			ref = append(ref, el{j, k, j*100 + k})
		}
	}
	// the fault: source fj fails at its element fk (fk may be its last one), advancing past it or not
	fj := r.Choose(n, "faultSrc")
	if sizes[fj] == 0 {
		sizes[fj] = 1
		ref = nil
		for j := range sizes {
			for k := 0; k < sizes[j]; k++ {
				ref = append(ref, el{j, k, j*100 + k})
			}
		}
	}
	fk := r.Choose(sizes[fj], "faultIdx")
	if r.Bool(1, 2, "faultAtLast") {
		fk = sizes[fj] - 1
	}
	advance := r.Bool(1, 2, "faultAdvances")
	fired := false
	mkInner := func(j int) fp.Iterator[int] {
		i := 0
		return fp.MakeIterator(func() bool { r.Gate("src"); return i < sizes[j] }, func() int {
			r.Gate("src")
			if i >= sizes[j] {
				panic("next on empty iterator (inner source)")
			}
			if j == fj && i == fk && !fired {
				fired = true
				r.Fault("source-next-fails-once")
				if advance {
					i++
				}
				panic(c20fault{})
			}
			v := j*100 + i
			i++
			return v
		})
	}
	outer := make([]int, n)
	for j := range outer {
		outer[j] = j
	}
	variant := r.Choose(5, "faultyVariant")
	names := [...]string{"Iterator.FlatMap", "iterator.FlatMap", "iterator.Flatten(Map)", "Concat chain", "iterator.FlatMap.Filter"}
	var it fp.Iterator[int]
	switch variant {
	case 0:
		it = iterator.FromSlice(outer).FlatMap(mkInner)
	case 1:
		it = iterator.FlatMap(iterator.FromSlice(outer), mkInner)
	case 2:
		it = iterator.Flatten(iterator.Map(iterator.FromSlice(outer), mkInner))
	case 3:
		it = iterator.Empty[int]()
		for j := range outer {
			it = it.Concat(mkInner(j))
		}
	default:
		it = iterator.FlatMap(iterator.FromSlice(outer), mkInner).Filter(func(int) bool { return true })
	}
	desc := fmt.Sprintf("%s over inner sources of sizes %v, source %d fails once at its element %d (advancing=%v)", names[variant], sizes, fj, fk, advance)
	r.MixFingerprintS(desc)
	r.Logf("faulty source: %s", desc)
	r.NonTrivial()
	r.Go("consumer", func(t *sim.Task) {
		var got []int
		faultSeen := false
		call := func(f func()) (p any) {
			t.Yield("call")
			defer func() { p = recover(); r.Gate("ret") }()
			f()
			return nil
		}
		finished := false
		for step := 0; step < len(ref)+6 && !finished; step++ {
			var h, h2 bool
			if p := call(func() { h = it.HasNext() }); p != nil {
				if _, ok := p.(c20fault); ok && !faultSeen {
					faultSeen = true // a look-ahead pulled the failing element: the failure surfaces in HasNext
					continue
				}
				r.Violate("hasnext-panic", "%s: HasNext panicked after %v: %v", desc, got, p)
				return
			}
			if p := call(func() { h2 = it.HasNext() }); p != nil || h2 != h {
				if _, ok := p.(c20fault); ok && !faultSeen {
					faultSeen = true
					continue
				}
				r.Violate("hasnext-wrong", "%s: HasNext returned %v and then %v (panic %v) with no Next in between, delivered %v", desc, h, h2, p, got)
				return
			}
			var v int
			p := call(func() { v = it.Next() })
			switch {
			case p == nil && h:
				got = append(got, v)
			case p == nil && !h:
				r.Violate("next-fabricated", "%s: Next after a false HasNext returned %d (delivered %v)", desc, v, got)
				return
			case !h:
				finished = true
			default:
				if _, ok := p.(c20fault); ok && !faultSeen {
					faultSeen = true
					continue
				}
				r.Violate("next-panic", "%s: Next after a true HasNext panicked: %v (delivered %v, injected failure already seen: %v)", desc, p, got, faultSeen)
				return
			}
		}
		if !finished {
			r.Violate("hasnext-wrong", "%s: the iterator does not end: %d calls after the injected failure it still reports elements (delivered %v)", desc, len(ref)+6, got)
			return
		}
		// delivered = reference in order, minus (possibly) elements of the failed source from the failure position on
		i := 0
		for _, e := range ref {
			if i < len(got) && got[i] == e.v {
				i++
				continue
			}
			if fired && e.src == fj && e.idx >= fk {
				continue // may be lost
			}
			r.Violate("wrong-element", "%s: delivered %v; element %d of source %d (%d) is missing although that source did not fail there", desc, got, e.idx, e.src, e.v)
			return
		}
		if i != len(got) {
			r.Violate("wrong-element", "%s: delivered %v, which is not the reference order (or repeats an element)", desc, got)
		}
	})
	c20Quiesce(r)
}

// c20Unordered: iterators whose order comes from a map; compared as multisets.
func c20Unordered(r *sim.Run) {
	r.Case = "unordered"
	n := r.Choose(12, "n")
	if r.Choose(3, "bigger") == 0 {
		n += 12 // past the 8-entry array node and deep enough for tries with several levels
	}
	keys := map[int]int{}
	for i := 0; i < n; i++ {
		k := r.Choose(40, "k")
		keys[k] = k*10 + 1
	}
	// shrunk shapes (one run in five): the keys are a window of L consecutive slots (wrapping) of one trie node under the
	// identity hasher; the collection is built with a few extra slots that are then removed one by one, so the node
	// sits at exactly L children inside the window (e.g. 16 children, all in slots 16..31) - a shape no constructor gives
	var extras []int
	window := r.Bool(1, 5, "shrunkWindow")
	if window {
		keys = map[int]int{}
		L := []int{7, 8, 9, 15, 16, 17, 24}[r.Choose(7, "windowLen")]
		a := r.Choose(32, "windowStart")
		lvl := r.Choose(2, "windowLevel")
		c := r.Choose(32, "windowSub")
		key := func(slot int) int {
			if lvl == 1 {
				return slot*32 + c
			}
			return slot
		}
		for i := 0; i < L; i++ {
			k := key((a + i) % 32)
			keys[k] = k*10 + 1
		}
		for i, ne := 0, min(32-L, 1+r.Choose(4, "windowExtra")); i < ne; i++ {
			extras = append(extras, key((a+L+i)%32))
		}
		r.Fault("collection-shrunk-to-a-slot-window")
	}
	var ks, vs, kvs []int
	for k, v := range keys {
		ks = append(ks, k)
		vs = append(vs, v)
		kvs = append(kvs, k*1000+v)
	}
	sort.Ints(ks)
	sort.Ints(vs)
	sort.Ints(kvs)
	tuples := make([]fp.Tuple2[int, int], 0, len(ks))
	for _, k := range ks {
		tuples = append(tuples, as.Tuple2(k, keys[k]))
	}
	kv := func(it fp.Iterator[fp.Tuple2[int, int]]) fp.Iterator[int] {
		return fp.MakeIterator(it.HasNext, func() int { t := it.Next(); return t.I1*1000 + t.I2 })
	}
	// high-bits-only and "digit" hashers: leaves at the deepest trie level (hashes that differ in bits 30/31 only), sparse
	// hash-array nodes, collision nodes next to sub-branches - the shapes the depth-first iterator has to walk
	hashers := []fp.Hashable[int]{hash.Number[int](), constHasher{}, lowHasher{},
		fnHasher{name: "k<<27", f: func(k int) uint32 { return uint32(k) << 27 }},
		fnHasher{name: "k%2 | (k/2)%20<<5", f: func(k int) uint32 { return uint32(k%2) | uint32((k/2)%20)<<5 }},
		fnHasher{name: "(k%5)<<30 | k%3", f: func(k int) uint32 { return uint32(k%5)<<30 | uint32(k%3) }}}
	h := hashers[r.Choose(len(hashers), "hasher")]
	base := r.Choose(16, "ubase")
	if window {
		h = fnHasher{name: "identity", f: func(k int) uint32 { return uint32(k) }}
		base = []int{0, 1, 2, 3}[base%4]
	}
	var it fp.Iterator[int]
	var ref []int
	desc := ""
	built := false
	defer func() {
		if !built {
			if p := recover(); p != nil {
				r.Violate("iterator-panic", "constructing an iterator over %d keys %v (variant %d) panicked: %v", len(ks), ks, base, p)
			}
		}
	}()
	im := immutable.Map(h, tuples...)
	is := immutable.Set(h, ks...)
	if window {
		for _, e := range extras {
			im = im.Updated(e, 5)
			is = is.Incl(e)
		}
		for _, e := range extras {
			im = im.Removed(e)
			is = is.Excl(e)
		}
	}
	mm := mutable.MapOf(keys)
	switch base {
	case 0:
		it, ref, desc = kv(im.Iterator()), kvs, "immutable.Map.Iterator"
	case 1:
		it, ref, desc = im.Keys(), ks, "immutable.Map.Keys"
	case 2:
		it, ref, desc = im.Values(), vs, "immutable.Map.Values"
	case 3:
		it, ref, desc = is.Iterator(), ks, "immutable.Set.Iterator"
	case 4:
		it, ref, desc = kv(mm.Iterator()), kvs, "mutable.Map.Iterator"
	case 5:
		it, ref, desc = mm.Keys(), ks, "mutable.Map.Keys"
	case 6:
		it, ref, desc = mm.Values(), vs, "mutable.Map.Values"
	case 7:
		it, ref, desc = mutable.SetOf(ks...).Iterator(), ks, "mutable.Set.Iterator"
	case 8:
		it, ref, desc = kv(fp.IteratorOfGoMap(keys)), kvs, "IteratorOfGoMap"
	case 9:
		it, ref, desc = kv(iterator.FromMap(keys)), kvs, "iterator.FromMap"
	case 10:
		it, ref, desc = iterator.FromMapKey(keys), ks, "iterator.FromMapKey"
	case 11:
		it, ref, desc = iterator.FromMapValue(keys), vs, "iterator.FromMapValue"
	case 12:
		u := fp.UnsafeGoMap[int, int]{}
		for k, v := range keys {
			u[k] = v
		}
		it, ref, desc = kv(u.Iterator()), kvs, "UnsafeGoMap.Iterator"
	case 13:
		it, ref, desc = kv(fp.Map[int, int]{}.Iterator()), nil, "zero Map.Iterator"
	case 14:
		it, ref, desc = fp.Set[int]{}.Iterator(), nil, "zero Set.Iterator"
	default:
		b := immutable.MapBuilder[int, int](h)
		for _, t := range tuples {
			b.Add(t.I1, t.I2)
		}
		it, ref, desc = kv(b.Build().Iterator()), kvs, "MapBuilder.Build.Iterator"
	}
	built = true
	r.MixFingerprintS(desc)
	r.MixFingerprintS(fmt.Sprint(ks))
	sc := c20Script(r, len(ref)+1)
	r.Logf("unordered: %s keys %v script %v", desc, ks, sc)
	r.Go("consumer", func(t *sim.Task) {
		var got []int
		ncalls := 0
		call := func(f func()) (p any) {
			t.Yield("call")
			if ncalls == sc.gcBefore {
				r.Fault("gc-cycle-with-finalizers")
				sim.GCNow()
			}
			ncalls++
			defer func() { p = recover() }()
			f()
			return nil
		}
		for i := 0; i < sc.demand; i++ {
			more := i < len(ref)
			nHas := sc.has[i]
			if !more && sc.blindEnd {
				nHas = 0
				r.Probe("next-on-exhausted-without-hasnext")
			}
			for hh := 0; hh < nHas; hh++ {
				var b bool
				if p := call(func() { b = it.HasNext() }); p != nil {
					r.Violate("hasnext-panic", "%s: HasNext panicked: %v", desc, p)
					return
				}
				if b != more {
					r.Violate("hasnext-wrong", "%s: HasNext at position %d returned %v, the collection has %d element(s)", desc, i, b, len(ref))
					return
				}
			}
			var v int
			p := call(func() { v = it.Next() })
			if !more {
				if p == nil {
					r.Violate("next-fabricated", "%s: Next on the exhausted iterator returned %d", desc, v)
				}
				break
			}
			if p != nil {
				r.Violate("next-panic", "%s: Next after a true HasNext panicked: %v", desc, p)
				return
			}
			got = append(got, v)
		}
		sort.Ints(got)
		// got must be a sub-multiset of ref without repetition; equal when fully drained
		j := 0
		for _, v := range got {
			for j < len(ref) && ref[j] < v {
				j++
			}
			if j >= len(ref) || ref[j] != v {
				r.Violate("wrong-element", "%s: delivered %v (sorted), the collection holds %v", desc, got, ref)
				return
			}
			j++
		}
		if sc.demand >= len(ref) && len(got) != len(ref) {
			r.Violate("wrong-element", "%s: drained iterator delivered %v (sorted), the collection holds %v", desc, got, ref)
		}
	})
	c20Quiesce(r)
}

type constHasher struct{}

func (constHasher) Eqv(a, b int) bool { return a == b }
func (constHasher) Hash(a int) uint32 { return 7 }

type lowHasher struct{}

func (lowHasher) Eqv(a, b int) bool { return a == b }
func (lowHasher) Hash(a int) uint32 { return uint32(a % 4) }

// c20Zero: every method of the zero-value Iterator behaves as on an empty iterator.
// c20NilElements: iterators over an interface element type whose sequence contains nil elements. A nil element is an
// element: look-ahead caches (TakeWhile, DropWhile, Filter, NextOption, the queue of Duplicate) must neither skip it
// nor mistake it for "nothing cached".
func c20NilElements(r *sim.Run) {
	r.Case = "nil-elements"
	n := r.Range(1, 6, "n")
	xs := make([]any, n)
	for i := range xs {
		if r.Choose(2, "isNil") == 0 {
			xs[i] = nil
		} else {
			xs[i] = i + 1
		}
	}
	show := func(v []any) string { return fmt.Sprintf("%#v", v) }
	src := func() fp.Iterator[any] { return fp.IteratorOfSeq(append([]any(nil), xs...)) }
	always := func(any) bool { return true }
	never := func(any) bool { return false }
	nHas := 1 + r.Choose(3, "nHas")
	drain := func(name string, it fp.Iterator[any], want []any) bool {
		var got []any
		var pan any
		func() {
			defer func() { pan = recover() }()
			for {
				more := false
				for h := 0; h < nHas; h++ {
					more = it.HasNext()
				}
				if !more {
					break
				}
				got = append(got, it.Next())
				if len(got) > len(want)+2 {
					break
				}
			}
		}()
		r.Probe("sequences-with-nil-elements")
		if pan != nil {
			r.Violate("next-panic", "%s over %s (an interface-typed sequence with nil elements) panicked: %v (delivered %s)", name, show(xs), pan, show(got))
			return false
		}
		if show(got) != show(want) {
			r.Violate("wrong-element", "%s over %s delivered %s, want %s (a nil element is an element)", name, show(xs), show(got), show(want))
			return false
		}
		return true
	}
	var isNil, notNil []any
	for _, x := range xs {
		if x == nil {
			isNil = append(isNil, x)
		} else {
			notNil = append(notNil, x)
		}
	}
	l, rr := iterator.Duplicate(src())
	sa, sb := iterator.Span(src(), always)
	pa, pb := iterator.Partition(src(), func(v any) bool { return v == nil })
	second := r.Choose(2, "rightFirst") == 1
	steps := []struct {
		name string
		it   fp.Iterator[any]
		want []any
	}{
		{"TakeWhile(true)", src().TakeWhile(always), xs},
		{"DropWhile(false)", src().DropWhile(never), xs},
		{"Filter(true)", src().Filter(always), xs},
		{"FilterNot(false)", src().FilterNot(never), xs},
		{"Filter(is nil)", src().Filter(func(v any) bool { return v == nil }), isNil},
		{"Map(identity)", src().Map(func(v any) any { return v }), xs},
		{"Concat", src().Take(1).Concat(src().Drop(1)), xs},
		{"Duplicate.left", l, xs},
		{"Duplicate.right", rr, xs},
		{"Span(true).prefix", sa, xs},
		{"Span(true).suffix", sb, nil},
		{"Partition(is nil).yes", pa, isNil},
		{"Partition(is nil).no", pb, notNil},
	}
	if second {
		// lagging side first
		steps[7], steps[8] = steps[8], steps[7]
		steps[11], steps[12] = steps[12], steps[11]
	}
	for _, st := range steps {
		if !drain(st.name, st.it, st.want) {
			return
		}
	}
	// NextOption: Some(nil) for a nil element, None only at the end
	it := src()
	for i := 0; i <= n; i++ {
		o := it.NextOption()
		if o.IsDefined() != (i < n) {
			r.Violate("wrong-element", "NextOption call %d over %s is defined=%v, want %v", i+1, show(xs), o.IsDefined(), i < n)
			return
		}
	}
}

func c20Zero(r *sim.Run) {
	if r.Choose(2, "nilElements") == 1 {
		c20NilElements(r)
		return
	}
	r.Case = "zero"
	var z fp.Iterator[int]
	type step struct {
		name string
		f    func() string
	}
	called := 0
	cnt := func(int) { called++ }
	pt := func(int) bool { called++; return true }
	empty := func(it fp.Iterator[int]) string {
		if it.HasNext() {
			return "HasNext=true"
		}
		return fmt.Sprint(it.ToSeq())
	}
	steps := []step{
		{"HasNext", func() string { return fmt.Sprint(z.HasNext()) + "=false" }},
		{"IsEmpty", func() string { return fmt.Sprint(!z.IsEmpty()) + "=false" }},
		{"NonEmpty", func() string { return fmt.Sprint(z.NonEmpty()) + "=false" }},
		{"ToSeq", func() string { return fmt.Sprint(z.ToSeq()) }},
		{"Count", func() string { return fmt.Sprint(z.Count()) + "=0" }},
		{"MakeString", func() string { return "[" + z.MakeString(",") + "]" }},
		{"NextOption", func() string { return fmt.Sprint(z.NextOption().IsDefined()) + "=false" }},
		{"Find", func() string { return fmt.Sprint(z.Find(pt).IsDefined()) + "=false" }},
		{"Foreach", func() string { z.Foreach(cnt); return "[]" }},
		{"Exists", func() string { return fmt.Sprint(z.Exists(pt)) + "=false" }},
		{"ForAll", func() string { return fmt.Sprint(!z.ForAll(pt)) + "=false" }},
		{"All", func() string {
			for range z.All() {
				called++
			}
			return "[]"
		}},
		{"Take", func() string { return empty(z.Take(3)) }},
		{"TakeWhile", func() string { return empty(z.TakeWhile(pt)) }},
		{"Drop", func() string { return empty(z.Drop(2)) }},
		{"DropWhile", func() string { return empty(z.DropWhile(pt)) }},
		{"Filter", func() string { return empty(z.Filter(pt)) }},
		{"FilterNot", func() string { return empty(z.FilterNot(pt)) }},
		{"Map", func() string { return empty(z.Map(func(v int) int { called++; return v })) }},
		{"FlatMap", func() string {
			return empty(z.FlatMap(func(v int) fp.Iterator[int] { called++; return iterator.Of(v) }))
		}},
		{"TapEach", func() string { return empty(z.TapEach(cnt)) }},
		{"Concat(zero)", func() string { return empty(z.Concat(fp.Iterator[int]{})) }},
		{"Concat(Of)", func() string { return fmt.Sprint(z.Concat(iterator.Of(1, 2)).ToSeq()) + "=[1 2]" }},
		{"Of.Concat(zero)", func() string { return fmt.Sprint(iterator.Of(1, 2).Concat(z).ToSeq()) + "=[1 2]" }},
		{"Appended", func() string { return fmt.Sprint(z.Appended(5).ToSeq()) + "=[5]" }},
		{"iterator.Map", func() string { return empty(iterator.Map(z, func(v int) int { return v })) }},
		{"iterator.Duplicate", func() string { a, b := iterator.Duplicate(z); return empty(a) + empty(b) + "=[][]" }},
		{"iterator.ToSeq", func() string { return fmt.Sprint(iterator.ToSeq(z)) }},
	}
	want := map[string]bool{"false=false": true, "[]": true, "0=0": true, "[[]]": false}
	n := r.Range(1, 8, "zeroSteps")
	for i := 0; i < n && !r.Failed(); i++ {
		s := steps[r.Choose(len(steps), "zeroStep")]
		r.MixFingerprintS(s.name)
		func() {
			defer func() {
				if e := recover(); e != nil {
					r.Violate("zero-value-panic", "%s on the zero-value Iterator panicked: %v", s.name, e)
				}
			}()
			got := s.f()
			ok := want[got]
			if !ok {
				// "x=y" forms: compare both halves
				for k := 0; k < len(got); k++ {
					if got[k] == '=' && got[:k] == got[k+1:] {
						ok = true
					}
				}
			}
			if !ok {
				r.Violate("zero-value-not-empty", "%s on the zero-value Iterator gave %s", s.name, got)
			}
		}()
	}
	if called != 0 && !r.Failed() {
		r.Violate("zero-value-not-empty", "a callback was invoked %d time(s) while iterating the zero-value Iterator", called)
	}
	// Next on the zero value is Next on an exhausted iterator: it must panic
	func() {
		defer func() { recover() }()
		v := z.Next()
		r.Violate("next-fabricated", "Next on the zero-value Iterator returned %d instead of panicking", v)
	}()
}
