package props

import (
	"errors"
	"fmt"
	"time"

	"github.com/csgura/fp"
	"verif/harness/sim"
)

func init() {
	Register(&Prop{
		ID:    "C05",
		Level: "exploration",
		Rule: "one run = a Promise[int] with k0 (0..9) callbacks registered sequentially, then 1-4 registrar tasks, 0-3 completer tasks " +
			"(pairwise distinct results) and 0-2 observer tasks racing, every internal/atomic Get/Load/Store/CAS of every task being a " +
			"preemption point decided by the seeded scheduler; plus late registrations after quiescence and a zero-value scenario. " +
			"non-trivial = at least one context switch happened between a task's Get and its following CAS on the promise " +
			"(i.e. a CAS window was actually interleaved); distinct = hash of the (task, atomic-op) schedule plus workload shape.",
		Assumptions: []string{
			"user callbacks and executors are harness stubs that never drop or duplicate a runnable (fp.Executor contract)",
			"execution between two atomic steps of one task is sequential real code; the Go memory model below the atomic.Value is trusted",
		},
		Real:     []string{"fp.Promise / fp.Future (future.go)", "internal/atomic", "promise.New"},
		Stub:     []string{"Go scheduler at atomic steps (seeded scheduler)", "goroutine creation of goExecutor (VerifSpawn)", "user executors", "user callbacks"},
		Quick:    Budget{Runs: 600000, Wall: 40 * time.Second},
		Thorough: Budget{Runs: 60000000, Wall: 20 * time.Minute},
		Exec:     execC05,
	})
}

type c05cb struct {
	id      int
	kind    int // 0 OnComplete 1 OnSuccess 2 OnFailure 3 Foreach
	exec    int
	count   int
	got     string
	early   bool // ran while IsCompleted() was false
	who     string
	started bool // registration call was made
	reenter bool // when it runs it registers a further callback on the same future
	nested  *c05cb
	panics  bool // injected fault: the callback panics (it runs on an inline executor, i.e. on the completer's stack)
}

// c05Injected is the panic value of an injected callback crash.
type c05Injected struct{}

var c05KindNames = [...]string{"OnComplete", "OnSuccess", "OnFailure", "Foreach"}

func tryStr(t fp.Try[int]) string {
	if t.IsSuccess() {
		return fmt.Sprintf("S(%d)", t.Get())
	}
	if e := t.Failed(); e.IsSuccess() {
		return fmt.Sprintf("F(%v)", e.Get())
	} else {
		// a failure that carries no error (Failure(nil), the zero-value Try): rendered by what Failed() makes of it
		return fmt.Sprintf("F(<no error: %v>)", e.Failed().OrElse(nil))
	}
}

func execC05(r *sim.Run) {
	if r.Choose(16, "scenario") == 15 {
		c05Zero(r)
		return
	}
	r.Case = "race"
	// unusual but legal results: a failure that carries no error (Failure(nil), the zero-value Try). Whatever the
	// promise makes of it, every observer - callbacks registered before, during and after, Value() - sees the same.
	// (OnFailure is left out of these runs: unpacking such a failure panics inside the library's own adaptor.)
	nilErrRun := r.Bool(1, 10, "nilErrRun")
	// injected fault: one callback registered before completion crashes, on an inline executor - on the stack of the
	// completing call. The completer recovers. Whatever the library does about the other listeners, no callback - the
	// crashing one included - may ever run a second time (the lower bound "at least once" is not demanded in these runs).
	panicRun := !nilErrRun && r.Bool(1, 12, "callbackPanics")
	p := fp.NewPromise[int]()
	fut := p.Future()
	ex := &execSet{run: r}
	var cbs []*c05cb

	register := func(cb *c05cb) {
		cb.started = true
		record := func(s string) {
			cb.count++
			cb.got = s
			if !p.IsCompleted() {
				cb.early = true
			}
			if cb.panics {
				r.Fault("callback-panics-on-the-completer-stack")
				panic(c05Injected{})
			}
			if cb.reenter && cb.nested != nil && !cb.nested.started {
				// a callback that registers another callback while callbacks are being dispatched
				n := cb.nested
				n.started = true
				fut.OnComplete(func(t fp.Try[int]) {
					n.count++
					n.got = tryStr(t)
					if !p.IsCompleted() {
						n.early = true
					}
				}, ex.ctx(n.exec)...)
			}
		}
		ctx := ex.ctx(cb.exec)
		switch cb.kind {
		case 0:
			fut.OnComplete(func(t fp.Try[int]) { record(tryStr(t)) }, ctx...)
		case 1:
			fut.OnSuccess(func(v int) { record(fmt.Sprintf("S(%d)", v)) }, ctx...)
		case 2:
			fut.OnFailure(func(e error) { record(fmt.Sprintf("F(%v)", e)) }, ctx...)
		case 3:
			fut.Foreach(func(v int) { record(fmt.Sprintf("S(%d)", v)) }, ctx...)
		}
		if cb.count > 0 {
			r.Probe("callback-already-ran-when-its-registration-returned")
		}
	}
	newCb := func(who string) *c05cb {
		cb := &c05cb{id: len(cbs), kind: r.Choose(4, "cbkind"), exec: r.Choose(exKinds, "cbexec"), who: who}
		if nilErrRun && cb.kind == 2 {
			cb.kind = 0
		}
		cbs = append(cbs, cb)
		if r.ChooseWith(8, "reenter", func(g *sim.Rng) int { return g.Intn(8) }) == 7 {
			cb.reenter = true
			cb.nested = &c05cb{id: len(cbs), kind: 0, exec: r.Choose(exKinds, "nestedexec"), who: who + "/nested"}
			cbs = append(cbs, cb.nested)
			r.Fault("callback-registers-callback")
		}
		return cb
	}

	// phase 0: k0 callbacks registered sequentially (callback slice reaches len/cap 0/0,1/1,2/2,3/4,4/4,5/8..)
	k0 := r.Choose(10, "k0")
	if r.Bool(1, 12, "manyListeners") {
		// "with any number of callbacks already registered": long listener lists (past 16, 32, 64 entries)
		k0 = 14 + r.Choose(60, "k0many")
		r.Fault("long-listener-list")
	}
	panicIdx := -1
	if panicRun && k0 > 0 {
		panicIdx = r.Choose(k0, "panicIdx")
	}
	for i := 0; i < k0; i++ {
		cb := newCb("pre")
		if i == panicIdx {
			cb.panics, cb.exec, cb.kind = true, exInline, 0
		}
		register(cb)
	}
	r.MixFingerprint(uint64(k0))

	// phase 1: racing registrars, completers, observers
	nReg := r.Range(1, 4, "nReg")
	for i := 0; i < nReg; i++ {
		n := r.Range(1, 3, "nCbPerReg")
		mine := make([]*c05cb, n)
		for j := range mine {
			mine[j] = newCb(fmt.Sprintf("reg%d", i))
		}
		r.Go(fmt.Sprintf("reg%d", i), func(t *sim.Task) {
			for _, cb := range mine {
				register(cb)
			}
		})
	}
	nComp := r.Choose(4, "nComp")
	type comp = c05comp
	comps := make([]*comp, nComp)
	errs := make([]error, nComp)
	for i := 0; i < nComp; i++ {
		c := &comp{kind: r.Choose(3, "compkind")}
		comps[i] = c
		errs[i] = fmt.Errorf("err%d", i)
		i := i
		switch c.kind {
		case 0:
			c.want = fmt.Sprintf("S(%d)", 100+i)
		default:
			c.want = fmt.Sprintf("F(err%d)", i)
		}
		if c.kind == 2 && r.Choose(2, "complete-succ") == 1 {
			c.kind = 3
			c.want = fmt.Sprintf("S(%d)", 100+i)
		}
		if nilErrRun && c.kind != 0 && c.kind != 3 && r.Choose(2, "nilErrorFailure") == 1 {
			c.kind = 4 + r.Choose(3, "nilErrKind")
			c.want = c05AsStored
			r.Fault("completion-with-a-nil-error-failure")
		}
		r.Go(fmt.Sprintf("comp%d", i), func(t *sim.Task) {
			defer func() {
				if e := recover(); e != nil {
					if _, ok := e.(c05Injected); !ok {
						panic(e)
					}
					// the completing call was cut short by the crashing listener: it won if the promise holds its result
					r.Gate("ret")
					c.ret = p.IsCompleted() && (c.want == c05AsStored || tryStr(p.Value()) == c.want)
					c.done = true
				}
			}()
			switch c.kind {
			case 0:
				c.ret = p.Success(100 + i)
			case 1:
				c.ret = p.Failure(errs[i])
			case 2:
				c.ret = p.Complete(fp.Failure[int](errs[i]))
			case 3:
				c.ret = p.Complete(fp.Success(100 + i))
			case 4:
				c.ret = p.Failure(nil)
			case 5:
				c.ret = p.Complete(fp.Try[int]{})
			case 6:
				c.ret = p.Complete(fp.Failure[int](nil))
			}
			c.done = true
		})
	}
	nObs := r.Choose(3, "nObs")
	type obs = c05obs
	observers := make([]*obs, nObs)
	for i := 0; i < nObs; i++ {
		o := &obs{}
		observers[i] = o
		iters := r.Range(2, 5, "obsIters")
		r.Go(fmt.Sprintf("obs%d", i), func(t *sim.Task) {
			for k := 0; k < iters; k++ {
				if p.IsCompleted() {
					o.seen = append(o.seen, tryStr(p.Value()))
					// Future view must agree
					if !fut.IsCompleted() {
						o.seen = append(o.seen, "future-not-completed")
					}
				} else {
					o.seen = append(o.seen, "-")
				}
			}
		})
	}
	r.MixFingerprint(uint64(nReg)<<8 | uint64(nComp)<<4 | uint64(nObs))

	// non-triviality probe: a switch inside a Get..CAS window
	// two tasks parked at "CAS" at once = both have read the status and neither has swapped yet.
	r.StepCheck = func() {
		parkedAtCAS := 0
		for _, t := range r.Tasks() {
			if !t.Done() && t.ParkLabel() == "CAS" {
				parkedAtCAS++
			}
		}
		if parkedAtCAS >= 2 {
			r.NonTrivial()
			r.Probe("two-tasks-inside-cas-window")
		}
	}

	r.RunToQuiescence()
	if r.Failed() {
		return
	}
	r.StepCheck = nil
	c05Check(r, p, cbs, comps, observers, ex, "phase1")
	if r.Failed() {
		return
	}

	// phase 2: late registrations (after completion, or still uncompleted when nComp==0)
	nLate := r.Choose(3, "nLate")
	if nLate > 0 {
		mine := make([]*c05cb, nLate)
		for j := range mine {
			mine[j] = newCb("late")
		}
		r.Go("late", func(t *sim.Task) {
			for _, cb := range mine {
				register(cb)
			}
		})
		// a late completer must lose
		if nComp > 0 && r.Choose(2, "lateComp") == 1 {
			c := &comp{kind: 0, want: "S(999)"}
			comps = append(comps, c)
			r.Go("latecomp", func(t *sim.Task) {
				c.ret = p.Success(999)
				c.done = true
			})
		}
		r.RunToQuiescence()
		if r.Failed() {
			return
		}
		c05Check(r, p, cbs, comps, observers, ex, "phase2")
	}
}

type c05comp struct {
	kind int
	want string
	ret  bool
	done bool
}

type c05obs struct{ seen []string }

// c05AsStored marks a completion whose rendering is taken from Value() (failures that carry no error).
const c05AsStored = "<as stored>"

func c05Check(r *sim.Run, p fp.Promise[int], cbs []*c05cb, comps []*c05comp, observers []*c05obs, ex *execSet, phase string) {
	var seen [][]string
	for _, o := range observers {
		seen = append(seen, o.seen)
	}
	if bl := r.BlockedTasks(); len(bl) > 0 {
		r.Violate("deadlock", "%s: %d task(s) blocked at quiescence", phase, len(bl))
		return
	}
	for _, t := range r.Unfinished() {
		r.Violate("stuck-task", "%s: task %d:%s not finished at quiescence (parked at %s)", phase, t.ID, t.Name, t.ParkLabel())
		return
	}
	if n := ex.pending(); n > 0 {
		r.Violate("stuck-exec", "%s: %d runnable(s) left in executor queues", phase, n)
		return
	}
	winners := 0
	winner := ""
	for i, c := range comps {
		if !c.done {
			r.Violate("completer-not-returned", "%s: completer %d did not return", phase, i)
			return
		}
		if c.ret {
			winners++
			winner = c.want
		}
	}
	if len(comps) == 0 {
		if p.IsCompleted() {
			r.Violate("spurious-completion", "%s: promise completed without any completer", phase)
		}
		for _, cb := range cbs {
			if cb.count != 0 {
				r.Violate("callback-before-completion", "%s: callback %d (%s by %s) ran %d time(s) on a promise that was never completed", phase, cb.id, c05KindNames[cb.kind], cb.who, cb.count)
			}
		}
		return
	}
	if phase == "phase1" && len(comps) >= 2 {
		r.Probe("runs-with-racing-completers")
		r.ProbeN("completion-calls-that-lost-the-race", len(comps)-winners)
	}
	if winners != 1 {
		r.Violate("single-assignment", "%s: %d of %d completion calls returned true (want exactly 1)", phase, winners, len(comps))
		return
	}
	if !p.IsCompleted() {
		r.Violate("not-completed", "%s: a completion call returned true but IsCompleted() is false", phase)
		return
	}
	if winner == c05AsStored {
		// the winning call passed a failure without an error; the reference is what Value() shows, and no success
		winner = tryStr(p.Value())
		if winner[0] == 'S' {
			r.Violate("wrong-value", "%s: Value()=%s but the winning call completed with a failure (one without an error)", phase, winner)
			return
		}
	}
	if got := tryStr(p.Value()); got != winner {
		r.Violate("wrong-value", "%s: Value()=%s but the winning call completed with %s", phase, got, winner)
		return
	}
	succ := winner[0] == 'S'
	for _, cb := range cbs {
		if !cb.started {
			continue
		}
		want := 1
		if (cb.kind == 1 || cb.kind == 3) && !succ {
			want = 0
		}
		if cb.kind == 2 && succ {
			want = 0
		}
		relaxed := false
		for _, x := range cbs {
			if x.panics && x.count > 0 {
				relaxed = true // a listener crashed during the notification: only "never twice" is demanded
			}
		}
		if relaxed && cb.count <= want {
			if cb.count == 1 && cb.got != winner {
				r.Violate("callback-value", "%s: callback %d received %s, winning result is %s", phase, cb.id, cb.got, winner)
				return
			}
			continue
		}
		if cb.count != want {
			r.Violate("callback-count", "%s: callback %d (%s by %s, executor %s) ran %d time(s), want %d (result %s)", phase, cb.id, c05KindNames[cb.kind], cb.who, exNames[cb.exec], cb.count, want, winner)
			return
		}
		if cb.count == 1 {
			if cb.got != winner {
				r.Violate("callback-value", "%s: callback %d received %s, winning result is %s", phase, cb.id, cb.got, winner)
				return
			}
			if cb.early {
				r.Violate("callback-early", "%s: callback %d ran while IsCompleted() was false", phase, cb.id)
				return
			}
		}
	}
	for i, s := range seen {
		first := ""
		for _, v := range s {
			if v == "-" {
				if first != "" {
					r.Violate("completion-not-stable", "observer %d saw %v", i, s)
					return
				}
				continue
			}
			if first == "" {
				first = v
			}
			if v != first || v != winner {
				r.Violate("observer-value", "observer %d saw %v, winning result %s", i, s, winner)
				return
			}
		}
	}
}

// c05Zero: zero-value Promise / Future behave like never-completed ones and do not crash.
func c05Zero(r *sim.Run) {
	r.Case = "zero"
	var p fp.Promise[int]
	var f fp.Future[int]
	ran := 0
	type step struct {
		name string
		f    func() string
	}
	steps := []step{
		{"Promise.Success", func() string { return fmt.Sprint(p.Success(1)) }},
		{"Promise.Failure", func() string { return fmt.Sprint(p.Failure(errors.New("x"))) }},
		{"Promise.Complete", func() string { return fmt.Sprint(p.Complete(fp.Success(2))) }},
		{"Promise.IsCompleted", func() string { return fmt.Sprint(p.IsCompleted()) }},
		{"Promise.Future.IsCompleted", func() string { return fmt.Sprint(p.Future().IsCompleted()) }},
		{"Future.IsCompleted", func() string { return fmt.Sprint(f.IsCompleted()) }},
		{"Future.OnComplete", func() string { f.OnComplete(func(fp.Try[int]) { ran++ }); return "false" }},
		{"Future.OnSuccess", func() string { f.OnSuccess(func(int) { ran++ }); return "false" }},
		{"Future.OnFailure", func() string { f.OnFailure(func(error) { ran++ }); return "false" }},
		{"Future.Foreach", func() string { f.Foreach(func(int) { ran++ }); return "false" }},
		{"Promise.Future.OnComplete", func() string {
			p.Future().OnComplete(func(fp.Try[int]) { ran++ }, inlineExec{new(int)})
			return "false"
		}},
		{"Future.String", func() string { _ = f.String(); return "false" }},
	}
	// seeded order and subset
	n := r.Range(1, len(steps), "zeroSteps")
	for i := 0; i < n && !r.Failed(); i++ {
		s := steps[r.Choose(len(steps), "zeroStep")]
		func() {
			defer func() {
				if e := recover(); e != nil {
					r.Violate("zero-value-panic", "%s on a zero value panicked: %v", s.name, e)
				}
			}()
			if got := s.f(); got != "false" {
				r.Violate("zero-value-completed", "%s on a zero value returned %s, want false", s.name, got)
			}
		}()
	}
	r.RunToQuiescence()
	if ran != 0 && !r.Failed() {
		r.Violate("zero-value-callback", "a callback registered on a zero-value future ran %d time(s)", ran)
	}
	r.MixFingerprintS("zero")
}
