module verif/harness

go 1.23

require (
	github.com/anishathalye/porcupine v1.3.0
	github.com/csgura/fp v0.0.0
)

replace github.com/csgura/fp => /repo

require golang.org/x/tools v0.13.0

require (
	golang.org/x/mod v0.12.0 // indirect
	golang.org/x/sys v0.12.0 // indirect
)
