// Package sim is a deterministic simulator for csgura/fp: tasks are real goroutines
// released one at a time by a scheduler whose every decision (and every workload and
// fault decision of a scenario) is drawn through Run.Choose from one PRNG, recorded as a
// decision trace, replayable and shrinkable.
package sim

import (
	"fmt"
	"os"
	"runtime"
	"runtime/debug"
	"sort"
	"sync"
	"sync/atomic"
	"time"

	"github.com/csgura/fp"
	"github.com/csgura/fp/lazy"
)

// OwnGC takes garbage collection away from the Go runtime's pacer: no cycle starts on its own (unless the memory
// limit is reached, which only the few allocation-heavy runs can do), so finalizers - the pull iterators of the
// library have one - run only where the simulator says so: between runs (GCBetweenRuns) and at injected fault points
// (GCNow). A defect that depends on when a finalizer runs then replays like any other.
func OwnGC(memLimit int64) {
	debug.SetGCPercent(-1)
	if memLimit > 0 {
		debug.SetMemoryLimit(memLimit)
	}
}

type gcSentinel struct{ _ [16]byte }

// GCNow runs a full collection and returns once every finalizer queued by it has run (a sentinel allocated after the
// first cycle is collected by a second one; the runtime runs finalizers sequentially in queue order).
var gcActive atomic.Bool

func GCNow() {
	gcActive.Store(true)
	defer gcActive.Store(false)
	runtime.GC()
	done := make(chan struct{})
	s := new(gcSentinel)
	runtime.SetFinalizer(s, func(*gcSentinel) { close(done) })
	s = nil
	runtime.GC()
	select {
	case <-done:
	case <-time.After(2 * time.Second):
	}
}

var runsSinceGC int

// GCBetweenRuns is called by the drivers after every run; it collects every few hundred runs.
func GCBetweenRuns() {
	runsSinceGC++
	if runsSinceGC >= 400 {
		runsSinceGC = 0
		GCNow()
	}
}

// HarnessError is a panic value raised for trouble in the simulator itself (watchdog,
// misuse). The driver turns it into exit status 2, never into a VIOLATION.
type HarnessError struct{ Msg string }

func (e HarnessError) Error() string { return "harness error: " + e.Msg }

func harnessPanic(format string, a ...any) {
	panic(HarnessError{fmt.Sprintf(format, a...)})
}

type taskState int32

const (
	stParked  taskState = iota // at a yield point (or not started yet), waiting to be released
	stRunning                  // released, no event seen yet
	stBlocked                  // released, found durably blocked in the Go runtime (library lock)
	stDone
)

type evKind int

const (
	evPark evKind = iota
	evDone
)

type event struct {
	t    *Task
	kind evKind
}

// Task is one simulated thread of control.
type Task struct {
	ID    int
	Name  string
	r     *Run
	goid  int64
	state taskState

	resume chan struct{}
	label  string      // where it is parked
	pred   func() bool // non-nil: runnable only when pred() is true
	kill   atomic.Bool
	exitng bool

	PanicVal   any
	PanicStack string
	local      []string
	prio       int
	blockVotes int
	Daemon     bool // daemon tasks (executor workers) parked on a predicate do not count as work
	quiet      int  // > 0: library hooks reached by this task are not scheduling points (an oracle is reading)
}

// Quietly runs f on the calling task with the library's yield hooks switched off: an oracle that re-reads many
// values after every event would otherwise spend the step budget of the run on its own reads. Outside a task it
// just calls f (hooks are no scheduling points there anyway).
func (r *Run) Quietly(f func()) {
	t := r.currentTask()
	if t == nil {
		f()
		return
	}
	t.quiet++
	defer func() { t.quiet-- }()
	f()
}

// Violation describes a property violation found in a run.
type Violation struct {
	Class  string // stable class, used by the shrinker ("same violation class persists")
	Detail string
}

// Run is one simulated execution: choice source + scheduler + recorders.
type Run struct {
	Seed uint64
	rng  *Rng

	replaying bool
	replay    []int
	pos       int
	Trace     []int
	Labels    []string

	LogOn bool
	Log   []string

	Steps    int
	Switches int
	MaxSteps int
	Probes   map[string]int
	Faults   map[string]int
	fpHash   uint64
	NonTriv  bool
	Viol     *Violation
	Case     string // scenario label of this run (for the journal and samples)

	mu      sync.Mutex
	cmu     sync.Mutex // guards Probes and Faults
	tasks   []*Task
	byGoid  map[int64]*Task
	cur     *Task
	last    *Task
	multi   atomic.Bool
	ev      chan event
	timer   *time.Timer
	policy  int
	polArg  int
	polInit bool
	Leaked  int

	// StepCheck, when set, is evaluated by the scheduler after every step with all tasks
	// parked, finished or durably blocked.
	StepCheck func()

	BlockedSeen int
	closed      bool

	// OwnRange: the run wants to own the visiting order of UnsafeGoMap.Iterator's range (and a yield point per entry)
	OwnRange bool
	// MuteMemo: the memo cells of package lazy / fp.Memoize are no scheduling points in this run (a scenario that reaches
	// them on every hash of a key and has nothing to learn from interleavings there)
	MuteMemo bool
}

// stepScale widens the default step cap for the statement-granularity build (VERIF_FINE), in which every statement of
// the instrumented files is a step.
var stepScale = func() int {
	if os.Getenv("VERIF_FINE") != "" {
		return 25
	}
	return 1
}()

// CaseTrace makes NoteCase print; the supervisor sets VERIF_CASE_TRACE for the run that
// confirms a fatal crash alone, so that the crash can be attributed to a scenario.
var CaseTrace = os.Getenv("VERIF_CASE_TRACE") != ""

// NoteCase records which scenario is about to run (only printed under CaseTrace).
func NoteCase(s string) {
	if CaseTrace {
		fmt.Fprintf(os.Stderr, "verif-case: %s\n", s)
	}
}

// Thorough is set by the driver for the thorough tier (scenarios may scale bounds with it).
var Thorough bool

var active atomic.Pointer[Run]

func init() {
	fp.VerifSetAtomicHook(hook)
	lazy.VerifHook = hook
	fp.VerifSetSpawnHook(spawnHook)
	fp.VerifSetRangeHook(rangeHook)
}

// rangeHook owns the visiting order of UnsafeGoMap.Iterator's range while a task of an active run executes it: the
// canonical (sorted) order rotated by a seeded amount - a Go range starts at a random position too. Outside a task the
// map is ranged as usual (nil).
func rangeHook(keys []any) []any {
	r := active.Load()
	if r == nil {
		return nil
	}
	// every run gets a deterministic order (the canonical one): with Go's own randomised order the effect of a defect
	// could depend on it and a failing run would not replay. Only scenarios that ask for it (OwnRange, C19) also get a
	// seeded starting point and - see hook - a scheduling point per entry.
	t := r.currentTask()
	if !r.OwnRange || t == nil || len(keys) < 2 || r.multi.Load() || t != r.cur {
		return keys
	}
	k := r.Choose(len(keys), "rangeStart")
	return append(append([]any{}, keys[k:]...), keys[:k]...)
}

func hook(op string) {
	r := active.Load()
	if r == nil {
		return
	}
	if op == "gomap.range" && !r.OwnRange {
		return // the per-entry yield of UnsafeGoMap.Iterator is a scheduling point only for runs that own the range
	}
	if r.MuteMemo && (op == "lazy.Memoize" || op == "fp.Memoize") {
		return
	}
	if gcActive.Load() {
		return // library code run by a finalizer during an owned GC cycle: not a task
	}
	t := r.currentTask()
	if t == nil || t.quiet > 0 {
		return
	}
	t.park(op, nil)
}

func spawnHook(rn fp.Runnable) bool {
	r := active.Load()
	if r == nil {
		return false
	}
	r.Go("exec", func(t *Task) { rn.Run() })
	return true
}

// NewRun creates a run in generate mode.
func NewRun(seed uint64) *Run {
	r := newRun()
	r.Seed = seed
	r.rng = NewRng(seed)
	return r
}

// NewReplay creates a run in trace mode: Choose returns the recorded values (mod n),
// and 0 once the trace is exhausted.
func NewReplay(trace []int) *Run {
	r := newRun()
	r.replaying = true
	r.replay = trace
	return r
}

func newRun() *Run {
	noteRunStart()
	r := &Run{
		MaxSteps: 20000 * stepScale,
		Probes:   map[string]int{},
		Faults:   map[string]int{},
		byGoid:   map[int64]*Task{},
		ev:       make(chan event, 4096),
		fpHash:   1469598103934665603,
	}
	r.timer = time.NewTimer(time.Hour)
	r.timer.Stop()
	if old := active.Swap(r); old != nil && !old.closed {
		harnessPanic("a previous run was not closed")
	}
	return r
}

// ---------------------------------------------------------------- choices

// Choose returns a value in [0,n); 0 is by convention the simplest alternative.
func (r *Run) Choose(n int, label string) int { return r.ChooseWith(n, label, nil) }

// ChooseWith is Choose with a custom distribution for generate mode. Replay uses the
// recorded value only.
func (r *Run) ChooseWith(n int, label string, gen func(*Rng) int) int {
	if n <= 1 {
		return 0
	}
	if r.cur != nil && r.multi.Load() {
		harnessPanic("Choose(%s) while more than one task may be running", label)
	}
	var v int
	if r.replaying {
		if r.pos < len(r.replay) {
			v = r.replay[r.pos] % n
			if v < 0 {
				v += n
			}
		}
		r.pos++
	} else if gen != nil {
		v = gen(r.rng)
		if v < 0 || v >= n {
			harnessPanic("generator for %s returned %d outside [0,%d)", label, v, n)
		}
	} else {
		v = r.rng.Intn(n)
	}
	r.Trace = append(r.Trace, v)
	if r.LogOn {
		r.Labels = append(r.Labels, label)
	}
	return v
}

// Bool is true with probability num/den in generate mode (false is the simple alternative).
func (r *Run) Bool(num, den int, label string) bool {
	return r.ChooseWith(2, label, func(g *Rng) int {
		if g.Intn(den) < num {
			return 1
		}
		return 0
	}) == 1
}

// Range returns a value in [lo,hi].
func (r *Run) Range(lo, hi int, label string) int { return lo + r.Choose(hi-lo+1, label) }

// ---------------------------------------------------------------- recording

func (r *Run) Logf(format string, a ...any) {
	if r.LogOn {
		r.Log = append(r.Log, fmt.Sprintf(format, a...))
	}
}

// The counters are guarded: in the short windows in which a task woken from a library lock runs beside the stepped one,
// library callbacks of both may count a probe or a fault at the same moment (two unguarded writes to one Go map abort
// the process with "concurrent map writes", which then does not reproduce when the run is executed alone).
func (r *Run) Probe(name string)         { r.cmu.Lock(); r.Probes[name]++; r.cmu.Unlock() }
func (r *Run) ProbeN(name string, n int) { r.cmu.Lock(); r.Probes[name] += n; r.cmu.Unlock() }
func (r *Run) Fault(name string)         { r.cmu.Lock(); r.Faults[name]++; r.cmu.Unlock() }
func (r *Run) NonTrivial()               { r.NonTriv = true }
func (r *Run) Fingerprint() uint64        { return r.fpHash }
func (r *Run) MixFingerprint(v uint64)    { r.fpHash = (r.fpHash ^ v) * 1099511628211 }
func (r *Run) MixFingerprintS(s string) {
	for i := 0; i < len(s); i++ {
		r.fpHash = (r.fpHash ^ uint64(s[i])) * 1099511628211
	}
	r.fpHash = (r.fpHash ^ 0xff) * 1099511628211
}

// Violate records the first violation of the run.
func (r *Run) Violate(class, format string, a ...any) {
	if r.Viol == nil {
		r.Viol = &Violation{Class: class, Detail: fmt.Sprintf(format, a...)}
		r.Logf("VIOLATION %s: %s", class, r.Viol.Detail)
	}
}

func (r *Run) Failed() bool { return r.Viol != nil }

// ---------------------------------------------------------------- tasks

// Go creates a task. It may be called from the driver goroutine or from the one running task.
func (r *Run) Go(name string, f func(t *Task)) *Task {
	if r.cur != nil && r.multi.Load() {
		harnessPanic("Go(%s) while more than one task may be running", name)
	}
	t := &Task{Name: name, r: r, resume: make(chan struct{}, 1), state: stParked, label: "start"}
	go func() {
		// the goroutine registers its id before it first waits for release; the scheduler
		// needs the id only for tasks it has released (ordered by the resume channel).
		t.goid = curGoid()
		r.mu.Lock()
		r.byGoid[t.goid] = t
		r.mu.Unlock()
		defer func() {
			if !t.exitng {
				if p := recover(); p != nil {
					if he, ok := p.(HarnessError); ok {
						fmt.Fprintln(os.Stderr, he.Error())
						os.Exit(2)
					}
					t.PanicVal = p
					t.PanicStack = string(debug.Stack())
				}
			}
			r.ev <- event{t, evDone}
		}()
		<-t.resume
		if t.kill.Load() {
			t.exitng = true
			return
		}
		f(t)
	}()
	r.mu.Lock()
	t.ID = len(r.tasks)
	r.tasks = append(r.tasks, t)
	r.mu.Unlock()
	if len(r.tasks) > 512 {
		harnessPanic("too many tasks")
	}
	return t
}

// currentTask: the task the calling goroutine belongs to. Outside the short windows in which a task woken from a
// library lock runs beside the stepped one, library code runs on the stepped task (or, handed over synchronously, on the
// coroutine of an iter.Pull it drives) - except during an owned GC cycle, when finalizers run library code on the
// runtime's finalizer goroutine: hooks reached while gcActive is set are ignored (see hook), they must not park and be
// resumed in the name of the task that is waiting for the cycle to finish.
func (r *Run) currentTask() *Task {
	if r.multi.Load() {
		id := curGoid()
		r.mu.Lock()
		t := r.byGoid[id]
		r.mu.Unlock()
		return t
	}
	return r.cur
}

// CurrentTask returns the task the caller runs on, or nil on the driver goroutine.
func (r *Run) CurrentTask() *Task { return r.currentTask() }

func (t *Task) park(label string, pred func() bool) {
	if t.exitng {
		return
	}
	t.label = label
	t.pred = pred
	t.r.ev <- event{t, evPark}
	<-t.resume
	if t.kill.Load() {
		t.exitng = true
		runtime.Goexit()
	}
}

// Gate must be called by harness code at the entry of every callback handed to the library
// and right after every library call returns, when the library may hold a real lock across
// callbacks. A task that was woken from a library lock by the unlock of the task being
// stepped runs beside it for a moment; at its first Gate (or hook) it parks, so harness code
// is never executed by two tasks at once and the wake-up itself becomes a scheduling point.
func (r *Run) Gate(label string) {
	if !r.multi.Load() {
		return
	}
	t := r.currentTask()
	if t != nil && t != r.cur {
		t.park("woken:"+label, nil)
	}
}

// Yield is a scheduling point.
func (t *Task) Yield(label string) { t.park(label, nil) }

// WaitUntil parks the task until pred (evaluated by the scheduler, on harness state only) holds.
func (t *Task) WaitUntil(label string, pred func() bool) {
	if pred() {
		t.park(label, nil)
		return
	}
	t.park(label, pred)
}

// Logf records a line in the task-local buffer; the scheduler merges buffers in task id
// order after each step, so the global log is deterministic even in the short window in
// which a task woken from a library lock runs beside the task that released it.
func (t *Task) Logf(format string, a ...any) {
	if t.r.LogOn {
		t.local = append(t.local, fmt.Sprintf("  [%d:%s] ", t.ID, t.Name)+fmt.Sprintf(format, a...))
	}
}

func (t *Task) Done() bool { return t.state == stDone }

// ParkLabel is the label of the yield point the task is parked at.
func (t *Task) ParkLabel() string { return t.label }

// ---------------------------------------------------------------- scheduler

// wall-clock bound for one settle; a task that spins is caught earlier by the CPU-time hang monitor (hang.go)
const watchdog = 90 * time.Second

func (r *Run) snapshotTasks() []*Task {
	r.mu.Lock()
	ts := make([]*Task, len(r.tasks))
	copy(ts, r.tasks)
	r.mu.Unlock()
	return ts
}

// dbgRing keeps the scheduler's last actions (printed by the watchdog).
var dbgRing [256]string
var dbgN int

func dbg(format string, a ...any) {
	dbgRing[dbgN%len(dbgRing)] = fmt.Sprintf(format, a...)
	dbgN++
}

func dbgDump() {
	for i := max(0, dbgN-len(dbgRing)); i < dbgN; i++ {
		fmt.Fprintf(os.Stderr, "sched[%d]: %s\n", i, dbgRing[i%len(dbgRing)])
	}
}

func (r *Run) apply(e event) {
	dbg("event task %d kind %d (state was %d, label %s)", e.t.ID, e.kind, e.t.state, e.t.label)
	// votes for "durably blocked" count consecutive probes within one stretch of running only
	e.t.blockVotes = 0
	switch e.kind {
	case evPark:
		e.t.state = stParked
	case evDone:
		e.t.state = stDone
	}
}

// settle waits until every released task is parked, finished or durably blocked.
func (r *Run) settle() {
	start := time.Now()
	wait := 50 * time.Microsecond
	needProbe := false
	for {
		// drain what is there
		for {
			select {
			case e := <-r.ev:
				r.apply(e)
				needProbe = true
				continue
			default:
			}
			break
		}
		ts := r.snapshotTasks()
		running, blocked := 0, 0
		for _, t := range ts {
			switch t.state {
			case stRunning:
				running++
			case stBlocked:
				blocked++
			}
		}
		if running == 0 && (blocked == 0 || !needProbe) {
			break
		}
		if running > 0 {
			// wait for an event, bounded
			r.timer.Reset(wait)
			select {
			case e := <-r.ev:
				if !r.timer.Stop() {
					select {
					case <-r.timer.C:
					default:
					}
				}
				r.apply(e)
				needProbe = true
				continue
			case <-r.timer.C:
			}
			if wait < 2*time.Millisecond {
				wait *= 2
			}
		}
		// probe the Go runtime. A task sends its event before it parks, so a task seen
		// waiting on a channel with no event pending is blocked in library code; if events
		// are pending the picture may be stale: drain first.
		reasons := probeWaitReasons()
		if len(r.ev) > 0 {
			continue
		}
		for _, t := range ts {
			if t.state != stRunning && t.state != stBlocked {
				continue
			}
			reason, ok := reasons[t.goid]
			if ok && isBlockingReason(reason) {
				if t.state == stRunning {
					// confirm with a second probe: a durable block persists
					t.blockVotes++
					if t.blockVotes >= 2 {
						dbg("task %d found blocked (%s)", t.ID, reason)
						t.state = stBlocked
						t.blockVotes = 0
						if os.Getenv("VERIF_DEBUG_BLOCK") != "" {
							fmt.Fprintf(os.Stderr, "blocked: task %d:%s goid=%d reason=%s label=%s\n%s\n", t.ID, t.Name, t.goid, reason, t.label, string(probeBuf[:4000]))
						}
						r.BlockedSeen++
					}
				}
			} else if t.state == stRunning {
				t.blockVotes = 0
			} else if t.state == stBlocked {
				dbg("task %d no longer blocked (reason %q ok=%v)", t.ID, reason, ok)
				t.state = stRunning // it was woken; wait for its event
			}
		}
		needProbe = false
		if time.Since(start) > watchdog {
			buf := make([]byte, 1<<20)
			fmt.Fprintf(os.Stderr, "watchdog: goroutine dump\n%s\n", buf[:runtime.Stack(buf, true)])
			for _, t := range ts {
				fmt.Fprintf(os.Stderr, "watchdog: task %d:%s state=%d label=%s goid=%d\n", t.ID, t.Name, t.state, t.label, t.goid)
			}
			dbgDump()
			harnessPanic("watchdog: a released task neither yields, finishes nor blocks (case %s)", r.Case)
		}
	}
	r.cur = nil
	nb := false
	for _, t := range r.snapshotTasks() {
		if t.state == stBlocked {
			nb = true
		}
		if len(t.local) > 0 {
			r.Log = append(r.Log, t.local...)
			t.local = t.local[:0]
		}
		if t.state == stDone && t.PanicVal != nil && !t.kill.Load() {
			r.taskPanic(t)
		}
	}
	r.multi.Store(nb)
}

// OnTaskPanic decides what an uncaught panic on a task means. Default: a violation.
var defaultPanicClass = "uncaught-panic"

func (r *Run) taskPanic(t *Task) {
	pv := t.PanicVal
	t.PanicVal = nil
	r.Violate(defaultPanicClass, "task %d:%s panicked: %v\n%s", t.ID, t.Name, pv, t.PanicStack)
}

func (r *Run) runnable() []*Task {
	var out []*Task
	for _, t := range r.snapshotTasks() {
		if t.state == stParked && (t.pred == nil || t.pred()) {
			out = append(out, t)
		}
	}
	// the task that ran last comes first: value 0 = "no context switch"
	if r.last != nil {
		for i, t := range out {
			if t == r.last {
				copy(out[1:i+1], out[:i])
				out[0] = t
				break
			}
		}
	}
	return out
}

func (r *Run) initPolicy() {
	if r.polInit {
		return
	}
	r.polInit = true
	if r.replaying {
		return
	}
	// Policy affects only how values are generated; the recorded value is always an index
	// into the runnable list, so replay does not need to know the policy.
	r.policy = r.rng.Intn(4)
	r.polArg = 2 + r.rng.Intn(6)
}

func (r *Run) pick(c []*Task) *Task {
	r.initPolicy()
	n := len(c)
	idx := r.ChooseWith(n, "sched", func(g *Rng) int {
		switch r.policy {
		case 0: // uniform
			return g.Intn(n)
		case 1: // sticky: switch with probability 1/polArg
			if c[0] == r.last && g.Intn(r.polArg) != 0 {
				return 0
			}
			return g.Intn(n)
		case 2: // priority based with rare priority changes (PCT flavoured)
			if g.Intn(4*r.polArg) == 0 {
				c[g.Intn(n)].prio = g.Intn(1 << 20)
			}
			best := 0
			for i, t := range c {
				if t.prio == 0 {
					t.prio = 1 + g.Intn(1<<20)
				}
				if t.prio > c[best].prio {
					best = i
				}
			}
			return best
		default: // mostly run-to-completion with rare preemption
			if c[0] == r.last && g.Intn(8*r.polArg) != 0 {
				return 0
			}
			return g.Intn(n)
		}
	})
	return c[idx]
}

// RunToQuiescence schedules tasks until none is runnable (or a violation / the step cap).
// It reports whether tasks remain durably blocked (deadlock candidates).
func (r *Run) RunToQuiescence() {
	for {
		r.settle()
		if r.StepCheck != nil && r.Viol == nil {
			r.StepCheck()
		}
		if r.Viol != nil {
			return
		}
		c := r.runnable()
		if len(c) == 0 {
			return
		}
		if r.Steps >= r.MaxSteps {
			if os.Getenv("VERIF_DEBUG_CAP") != "" {
				buf := make([]byte, 1<<20)
				fmt.Fprintf(os.Stderr, "%s\n", buf[:runtime.Stack(buf, true)])
			}
			r.Violate("no-progress", "step cap %d reached", r.MaxSteps)
			return
		}
		t := r.pick(c)
		r.Steps++
		if r.last != nil && t != r.last {
			r.Switches++
		}
		r.MixFingerprint(uint64(t.ID)<<8 ^ uint64(len(t.label)))
		r.MixFingerprintS(t.label)
		if r.LogOn {
			r.Log = append(r.Log, fmt.Sprintf("step %d: task %d:%s from %s", r.Steps, t.ID, t.Name, t.label))
		}
		r.last = t
		r.cur = t
		dbg("release task %d (state was %d, label %s)", t.ID, t.state, t.label)
		t.state = stRunning
		t.blockVotes = 0
		t.pred = nil
		t.resume <- struct{}{}
	}
}

// Step releases exactly one task chosen by the scheduler; false when none is runnable.
func (r *Run) BlockedTasks() []*Task {
	var out []*Task
	for _, t := range r.snapshotTasks() {
		if t.state == stBlocked {
			out = append(out, t)
		}
	}
	return out
}

// Unfinished returns non-daemon tasks that are neither done nor waiting on a predicate as daemons.
func (r *Run) Unfinished() []*Task {
	var out []*Task
	for _, t := range r.snapshotTasks() {
		if t.state != stDone && !t.Daemon {
			out = append(out, t)
		}
	}
	return out
}

func (r *Run) Tasks() []*Task { return r.snapshotTasks() }

// Close terminates every remaining task (runtime.Goexit at its yield point, so deferred
// unlocks in library code run) and detaches the run.
func (r *Run) Close() {
	if r.closed {
		return
	}
	r.settle()
	ts := r.snapshotTasks()
	sort.SliceStable(ts, func(i, j int) bool { return ts[i].ID > ts[j].ID })
	pending := 0
	for _, t := range ts {
		if t.state == stDone {
			continue
		}
		t.kill.Store(true)
		pending++
		if t.state == stParked {
			t.state = stRunning
			t.resume <- struct{}{}
		}
	}
	deadline := time.After(3 * time.Second)
	for pending > 0 {
		select {
		case e := <-r.ev:
			if e.kind == evDone {
				if e.t.state != stDone {
					e.t.state = stDone
					pending--
				}
			} else {
				// a task woken from a lock reached a yield point: it parks; release it so it exits
				e.t.state = stRunning
				e.t.resume <- struct{}{}
			}
		case <-deadline:
			r.Leaked = pending
			pending = 0
		}
	}
	r.closed = true
	r.multi.Store(false)
	r.cur = nil
	active.CompareAndSwap(r, nil)
}
