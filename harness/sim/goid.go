package sim

import (
	"bytes"
	"runtime"
	"strconv"
)

// curGoid returns the id of the calling goroutine (parsed from its stack header).
func curGoid() int64 {
	var buf [64]byte
	n := runtime.Stack(buf[:], false)
	return parseGoid(buf[:n])
}

var goroutinePrefix = []byte("goroutine ")

func parseGoid(b []byte) int64 {
	if !bytes.HasPrefix(b, goroutinePrefix) {
		return -1
	}
	b = b[len(goroutinePrefix):]
	i := bytes.IndexByte(b, ' ')
	if i < 0 {
		return -1
	}
	id, err := strconv.ParseInt(string(b[:i]), 10, 64)
	if err != nil {
		return -1
	}
	return id
}

var probeBuf = make([]byte, 1<<18)

// probeWaitReasons returns goroutine id -> wait reason ("running", "runnable",
// "sync.Mutex.Lock", "chan receive", ...) for every goroutine of the process.
func probeWaitReasons() map[int64]string {
	for {
		n := runtime.Stack(probeBuf, true)
		if n < len(probeBuf) {
			return parseWaitReasons(probeBuf[:n])
		}
		probeBuf = make([]byte, 2*len(probeBuf))
	}
}

func parseWaitReasons(b []byte) map[int64]string {
	out := map[int64]string{}
	var cur int64 = -1
	needFrame := false
	sawSync := false
	for len(b) > 0 {
		nl := bytes.IndexByte(b, '\n')
		var line []byte
		if nl < 0 {
			line, b = b, nil
		} else {
			line, b = b[:nl], b[nl+1:]
		}
		if !bytes.HasPrefix(line, goroutinePrefix) {
			// a frame line: "pkg.func(args)"; the first frame outside runtime/sync tells
			// who is waiting. A wait inside the simulator's own code (its mutex, its
			// channels) is not a block on a library lock.
			if needFrame && len(line) > 0 && line[0] != '\t' && line[0] != ' ' {
				if bytes.HasPrefix(line, []byte("sync.")) {
					sawSync = true
					continue
				}
				if bytes.HasPrefix(line, []byte("runtime.")) ||
					bytes.HasPrefix(line, []byte("internal/")) || bytes.HasPrefix(line, []byte("sync/atomic.")) {
					continue
				}
				needFrame = false
				if bytes.HasPrefix(line, []byte("verif/harness/sim.")) {
					out[cur] = "harness-internal"
				} else if !sawSync && isSemaphoreReason(out[cur]) {
					// a semaphore wait that was not entered through package sync is the runtime's own business: a goroutine
					// that is about to start or finish a GC cycle waits on the runtime's semaphores (and waits all the longer
					// because this very probe stops the world). It is not blocked on a lock of the code under test.
					out[cur] = "runtime-internal"
				}
			}
			continue
		}
		rest := line[len(goroutinePrefix):]
		sp := bytes.IndexByte(rest, ' ')
		if sp < 0 {
			continue
		}
		id, err := strconv.ParseInt(string(rest[:sp]), 10, 64)
		if err != nil {
			continue
		}
		lb := bytes.IndexByte(rest, '[')
		rb := bytes.LastIndexByte(rest, ']')
		if lb < 0 || rb < lb {
			continue
		}
		reason := rest[lb+1 : rb]
		if c := bytes.IndexByte(reason, ','); c >= 0 {
			reason = reason[:c]
		}
		out[id] = string(reason)
		cur = id
		needFrame = true
		sawSync = false
	}
	return out
}

func isSemaphoreReason(s string) bool {
	switch s {
	case "semacquire", "sync.Mutex.Lock", "sync.RWMutex.Lock", "sync.RWMutex.RLock", "sync.Cond.Wait", "sync.WaitGroup.Wait":
		return true
	}
	return false
}

// isBlockingReason reports whether a goroutine with this wait reason is durably
// blocked inside the Go runtime on a synchronisation object (as opposed to running,
// runnable, in a syscall, sleeping or being preempted). Unknown reasons are treated
// as "still running" (worst case: the watchdog fires, exit 2; never a wrong schedule).
func isBlockingReason(s string) bool {
	switch s {
	case "sync.Mutex.Lock", "sync.RWMutex.Lock", "sync.RWMutex.RLock",
		"semacquire", "sync.Cond.Wait", "sync.WaitGroup.Wait",
		"chan receive", "chan send", "select", "select (no cases)",
		"chan receive (nil chan)", "chan send (nil chan)":
		return true
	}
	return false
}
