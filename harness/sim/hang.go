package sim

import (
	"fmt"
	"os"
	"runtime"
	"strconv"
	"sync/atomic"
	"syscall"
	"time"
)

// Hang monitor. A run of any scenario takes milliseconds (the deepest ones seconds). A call into the library that
// never returns - on a task or on the scheduler's own goroutine while an oracle reads a structure - would otherwise
// keep a worker spinning for ever. The monitor measures the CPU time the process has used since the current run was
// created (CPU time, not wall time: a loaded or suspended machine cannot trip it) and, beyond the limit, prints a
// line starting with "fatal error: no-return", all goroutine stacks, and exits with status 3. The supervisor handles
// that like any other fatal abort of a worker: the journalled run is executed again alone in a fresh process and, if
// it does not return there either, reported as a violation whose replay file re-executes that run.

var hangRunSeq atomic.Uint64
var hangCPUAtStart atomic.Int64

func cpuNow() int64 {
	var ru syscall.Rusage
	if syscall.Getrusage(syscall.RUSAGE_SELF, &ru) != nil {
		return 0
	}
	return ru.Utime.Nano() + ru.Stime.Nano()
}

func noteRunStart() {
	hangCPUAtStart.Store(cpuNow())
	hangRunSeq.Add(1)
}

// HangCPULimit is the CPU time one run may use before it counts as not returning.
func HangCPULimit() time.Duration {
	if v := os.Getenv("VERIF_HANG_CPU_S"); v != "" {
		if n, err := strconv.Atoi(v); err == nil && n > 0 {
			return time.Duration(n) * time.Second
		}
	}
	return 100 * time.Second
}

// StartHangMonitor starts the monitor goroutine (once per process).
func StartHangMonitor() {
	limit := HangCPULimit()
	noteRunStart()
	go func() {
		for {
			time.Sleep(time.Second)
			seq := hangRunSeq.Load()
			used := time.Duration(cpuNow() - hangCPUAtStart.Load())
			if used <= limit || seq != hangRunSeq.Load() {
				continue
			}
			buf := make([]byte, 1<<20)
			n := runtime.Stack(buf, true)
			fmt.Fprintf(os.Stderr, "fatal error: no-return: a run used more than %v of CPU time without returning (runs take milliseconds)\n\n%s\n", limit, buf[:n])
			os.Exit(3)
		}
	}()
}
