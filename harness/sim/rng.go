package sim

// Rng is a small, toolchain-independent PRNG (splitmix64). Everything a run
// decides in generate mode comes out of exactly one Rng.
type Rng struct{ s uint64 }

func NewRng(seed uint64) *Rng { return &Rng{s: seed} }

func (r *Rng) Uint64() uint64 {
	r.s += 0x9e3779b97f4a7c15
	z := r.s
	z = (z ^ (z >> 30)) * 0xbf58476d1ce4e5b9
	z = (z ^ (z >> 27)) * 0x94d049bb133111eb
	return z ^ (z >> 31)
}

// Intn returns a value in [0,n). n must be > 0.
func (r *Rng) Intn(n int) int {
	if n <= 1 {
		return 0
	}
	return int(r.Uint64() % uint64(n))
}

// Mix derives a per-run seed from the tier seed, a property tag and the run index.
func Mix(seed uint64, tag string, idx uint64) uint64 {
	h := seed ^ 0x51ed270b27b4f3a5
	for i := 0; i < len(tag); i++ {
		h = (h ^ uint64(tag[i])) * 0x100000001b3
	}
	r := Rng{s: h ^ (idx * 0x9e3779b97f4a7c15)}
	r.Uint64()
	return r.Uint64()
}
