package sim

import "time"

// Exec runs one scenario on a prepared Run (generate or trace mode) and closes it.
type Exec func(r *Run)

// Replay executes trace in trace mode and returns the finished run.
func Replay(exec Exec, trace []int, logOn bool) *Run {
	r := NewReplay(trace)
	r.LogOn = logOn
	func() {
		defer r.Close()
		exec(r)
	}()
	GCBetweenRuns()
	return r
}

// Shrink minimises a failing decision trace: delete chunks, zero and lower values, keeping
// an edit when the same violation class persists. Bounded by budget. Returns the minimised
// (normalised: exactly the consumed decisions) trace and the number of executions used.
func Shrink(exec Exec, trace []int, class string, budget time.Duration) ([]int, int) {
	deadline := time.Now().Add(budget)
	runs := 0
	best := append([]int(nil), trace...)

	try := func(cand []int) bool {
		if time.Now().After(deadline) {
			return false
		}
		runs++
		r := Replay(exec, cand, false)
		if r.Viol != nil && r.Viol.Class == class {
			// normalise: the decisions actually consumed, trailing zeros dropped
			nt := append([]int(nil), r.Trace...)
			for len(nt) > 0 && nt[len(nt)-1] == 0 {
				nt = nt[:len(nt)-1]
			}
			if less(nt, best) {
				best = nt
				return true
			}
		}
		return false
	}

	// normalise the starting point
	try(best)

	improved := true
	for improved && time.Now().Before(deadline) {
		improved = false
		// 1. truncate
		for n := len(best) / 2; n >= 1; n /= 2 {
			for len(best) >= n && try(best[:len(best)-n]) {
				improved = true
			}
		}
		// 2. delete chunks
		for sz := 8; sz >= 1; sz /= 2 {
			for i := 0; i+sz <= len(best); {
				cand := append(append([]int(nil), best[:i]...), best[i+sz:]...)
				if try(cand) {
					improved = true
				} else {
					i++
				}
			}
		}
		// 2b. lower a value and delete a later chunk together (a count and the decisions of
		// the element it counted)
		if len(best) <= 400 {
			for i := 0; i < len(best); i++ {
				for sz := 1; sz <= 6; sz++ {
					for j := i + 1; j+sz <= len(best) && i < len(best) && best[i] > 0; {
						cand := append([]int(nil), best[:j]...)
						cand = append(cand, best[j+sz:]...)
						cand[i]--
						if try(cand) {
							improved = true
						} else {
							j++
						}
					}
				}
			}
		}
		// 3. zero / lower single values
		for i := 0; i < len(best); i++ {
			if best[i] == 0 {
				continue
			}
			cand := append([]int(nil), best...)
			cand[i] = 0
			if try(cand) {
				improved = true
				continue
			}
			for v := best[i] / 2; v > 0 && i < len(best) && v < best[i]; v = best[i] / 2 {
				cand := append([]int(nil), best...)
				cand[i] = v
				if !try(cand) {
					break
				}
				improved = true
			}
			if i < len(best) && best[i] > 1 {
				cand := append([]int(nil), best...)
				cand[i] = best[i] - 1
				if try(cand) {
					improved = true
				}
			}
		}
	}
	return best, runs
}

// less orders traces: shorter first, then lexicographically smaller.
func less(a, b []int) bool {
	if len(a) != len(b) {
		return len(a) < len(b)
	}
	for i := range a {
		if a[i] != b[i] {
			return a[i] < b[i]
		}
	}
	return false
}
