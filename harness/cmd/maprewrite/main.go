// maprewrite rewrites, in a SCRATCH copy of csgura/fp, every `range` over a map-typed expression and
// every maps.All/Keys/Values call into the verifmap drop-ins, and inserts `defer verifmap.Flush()` into
// main functions. Usage: maprewrite <dir of the scratch copy> <verifmap source file>
package main

import (
	"bytes"
	"fmt"
	"go/ast"
	"go/token"
	"go/types"
	"os"
	"path/filepath"
	"sort"
	"strings"

	"golang.org/x/tools/go/packages"
)

type edit struct {
	pos  int
	end  int
	text string
}

func main() {
	if len(os.Args) != 3 {
		fmt.Fprintln(os.Stderr, "usage: maprewrite <dir> <verifmap.go>")
		os.Exit(2)
	}
	dir := os.Args[1]
	src, err := os.ReadFile(os.Args[2])
	if err != nil {
		fmt.Fprintln(os.Stderr, err)
		os.Exit(2)
	}
	vm := filepath.Join(dir, "internal", "verifmap")
	os.MkdirAll(vm, 0o755)
	if err := os.WriteFile(filepath.Join(vm, "verifmap.go"), src, 0o644); err != nil {
		fmt.Fprintln(os.Stderr, err)
		os.Exit(2)
	}
	cfg := &packages.Config{Mode: packages.NeedName | packages.NeedFiles | packages.NeedSyntax | packages.NeedTypes | packages.NeedTypesInfo | packages.NeedImports | packages.NeedDeps | packages.NeedCompiledGoFiles,
		Dir: dir, Tests: false}
	// only what the three generators link: their main packages and every package of the module they depend on
	roots, err := packages.Load(cfg, "./cmd/gombok", "./internal/generator/template_gen", "./internal/generator/monad_gen")
	if err != nil {
		fmt.Fprintln(os.Stderr, "load:", err)
		os.Exit(2)
	}
	var pkgs []*packages.Package
	packages.Visit(roots, nil, func(p *packages.Package) {
		if strings.HasPrefix(p.PkgPath, "github.com/csgura/fp") {
			pkgs = append(pkgs, p)
		}
	})
	sort.Slice(pkgs, func(i, j int) bool { return pkgs[i].PkgPath < pkgs[j].PkgPath })
	rangeSites, callSites, mains, files := 0, 0, 0, 0
	for _, p := range pkgs {
		if strings.HasSuffix(p.PkgPath, "/internal/verifmap") {
			continue
		}
		if len(p.Errors) > 0 {
			fmt.Fprintf(os.Stderr, "package %s has errors: %v\n", p.PkgPath, p.Errors[0])
			os.Exit(2)
		}
		for i, f := range p.Syntax {
			name := p.CompiledGoFiles[i]
			if !strings.HasSuffix(name, ".go") {
				continue
			}
			var edits []edit
			off := func(pos token.Pos) int { return p.Fset.Position(pos).Offset }
			usesMaps := false
			ast.Inspect(f, func(n ast.Node) bool {
				switch x := n.(type) {
				case *ast.RangeStmt:
					t := p.TypesInfo.TypeOf(x.X)
					if t == nil {
						return true
					}
					if _, ok := t.Underlying().(*types.Map); ok {
						edits = append(edits, edit{off(x.X.Pos()), off(x.X.Pos()), "verifmap.All("}, edit{off(x.X.End()), off(x.X.End()), ")"})
						rangeSites++
					}
				case *ast.CallExpr:
					if sel, ok := x.Fun.(*ast.SelectorExpr); ok {
						if id, ok := sel.X.(*ast.Ident); ok {
							if pn, ok := p.TypesInfo.Uses[id].(*types.PkgName); ok && pn.Imported().Path() == "maps" {
								switch sel.Sel.Name {
								case "All", "Keys", "Values":
									edits = append(edits, edit{off(sel.Pos()), off(sel.End()), "verifmap." + sel.Sel.Name})
									callSites++
									usesMaps = true
								}
							}
						}
					}
				case *ast.FuncDecl:
					if p.Name == "main" && x.Name.Name == "main" && x.Recv == nil && x.Body != nil {
						edits = append(edits, edit{off(x.Body.Lbrace) + 1, off(x.Body.Lbrace) + 1, "\n\tdefer verifmap.Flush()\n"})
						mains++
					}
				}
				return true
			})
			if len(edits) == 0 {
				continue
			}
			files++
			// import: right after the package clause
			edits = append(edits, edit{off(f.Name.End()), off(f.Name.End()), "\n\nimport verifmap \"github.com/csgura/fp/internal/verifmap\"\n"})
			data, err := os.ReadFile(name)
			if err != nil {
				fmt.Fprintln(os.Stderr, err)
				os.Exit(2)
			}
			sort.SliceStable(edits, func(a, b int) bool { return edits[a].pos < edits[b].pos })
			var out bytes.Buffer
			last := 0
			for _, e := range edits {
				out.Write(data[last:e.pos])
				out.WriteString(e.text)
				last = e.end
			}
			out.Write(data[last:])
			if usesMaps {
				out.WriteString("\nvar _ = maps.Clone[map[int]int]\n")
			}
			if err := os.WriteFile(name, out.Bytes(), 0o644); err != nil {
				fmt.Fprintln(os.Stderr, err)
				os.Exit(2)
			}
		}
	}
	fmt.Printf("maprewrite: %d range-over-map sites, %d maps.* calls, %d main functions, %d files rewritten\n", rangeSites, callSites, mains, files)
	if rangeSites == 0 {
		os.Exit(2)
	}
}
