// yieldrewrite inserts a scheduling point in front of every statement of the given Go files (function bodies and
// function literals): `verifYield("@<file>:<line>")`. It is run on a SCRATCH COPY of the repository only (never on
// /repo); the packages it is applied to already define verifYield behind the build tag `verif`. With it, an
// unsynchronised check-then-act that has no lock, atomic or memo operation inside its window still gets a point at
// which the simulator can switch tasks - statement granularity instead of synchronisation-operation granularity.
//
// A leading argument -skiprange=a,b names identifiers that hold Go maps: the body of `for ... := range a` gets no
// scheduling points (Go visits a map in random order; statements executed per entry would otherwise put that order into
// the event log, which must be a function of the seed alone).
//
//	yieldrewrite [-skiprange=ident,...] <root> <relative file>...
package main

import (
	"bytes"
	"fmt"
	"go/ast"
	"go/format"
	"go/parser"
	"go/token"
	"os"
	"path/filepath"
	"strings"
)

func main() {
	if len(os.Args) < 3 {
		fmt.Fprintln(os.Stderr, "usage: yieldrewrite <root> <relative file>...")
		os.Exit(2)
	}
	if strings.HasPrefix(os.Args[1], "-skiprange=") {
		for _, id := range strings.Split(strings.TrimPrefix(os.Args[1], "-skiprange="), ",") {
			skipRange[id] = true
		}
		os.Args = append(os.Args[:1], os.Args[2:]...)
	}
	root := os.Args[1]
	total := 0
	for _, rel := range os.Args[2:] {
		n, err := rewrite(filepath.Join(root, rel), rel)
		if err != nil {
			fmt.Fprintf(os.Stderr, "yieldrewrite: %s: %v\n", rel, err)
			os.Exit(2)
		}
		total += n
	}
	fmt.Printf("yieldrewrite: %d scheduling points inserted in %d file(s)\n", total, len(os.Args)-2)
}

var skipRange = map[string]bool{}

func rewrite(path, rel string) (int, error) {
	fset := token.NewFileSet()
	f, err := parser.ParseFile(fset, path, nil, parser.ParseComments)
	if err != nil {
		return 0, err
	}
	n := 0
	yield := func(pos token.Pos) ast.Stmt {
		n++
		p := fset.Position(pos)
		return &ast.ExprStmt{X: &ast.CallExpr{
			Fun:  ast.NewIdent("verifYield"),
			Args: []ast.Expr{&ast.BasicLit{Kind: token.STRING, Value: fmt.Sprintf("%q", fmt.Sprintf("@%s:%d", rel, p.Line))}},
		}}
	}
	var doList func(list []ast.Stmt) []ast.Stmt
	doList = func(list []ast.Stmt) []ast.Stmt {
		out := make([]ast.Stmt, 0, 2*len(list))
		for _, s := range list {
			switch s.(type) {
			case *ast.LabeledStmt, *ast.EmptyStmt:
				out = append(out, s)
				continue
			case *ast.DeclStmt:
				// const / type / var declarations: no scheduling point in front (keeps declarations grouped)
				out = append(out, s)
				continue
			}
			out = append(out, yield(s.Pos()), s)
		}
		return out
	}
	skip := map[*ast.BlockStmt]bool{} // bodies of switch / select: their "statements" are the clauses
	ast.Inspect(f, func(node ast.Node) bool {
		switch x := node.(type) {
		case *ast.SwitchStmt:
			skip[x.Body] = true
		case *ast.TypeSwitchStmt:
			skip[x.Body] = true
		case *ast.SelectStmt:
			skip[x.Body] = true
		case *ast.RangeStmt:
			if id, ok := x.X.(*ast.Ident); ok && skipRange[id.Name] {
				return false // nothing inside this loop is instrumented
			}
		}
		switch x := node.(type) {
		case *ast.FuncDecl:
			if x.Name.Name == "verifYield" || x.Name.Name == "VerifYield" {
				return false
			}
		case *ast.BlockStmt:
			if !skip[x] {
				x.List = doList(x.List)
			}
		case *ast.CaseClause:
			x.Body = doList(x.Body)
		case *ast.CommClause:
			x.Body = doList(x.Body)
		}
		return true
	})
	var buf bytes.Buffer
	if err := format.Node(&buf, fset, f); err != nil {
		return 0, err
	}
	return n, os.WriteFile(path, buf.Bytes(), 0o644)
}
