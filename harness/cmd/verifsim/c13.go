package main

import (
	"bufio"
	"bytes"
	"encoding/json"
	"flag"
	"fmt"
	"os"
	"os/exec"
	"path/filepath"
	"sort"
	"strconv"
	"strings"
	"sync"
	"time"

	"verif/harness/sim"
)

// C13: generators are deterministic and the committed generated code is their fixpoint.
// The nondeterminism the property names (Go map iteration order inside the generators) has no seam in the
// Go runtime, so the check manufactures one: scratch copy A of the working tree is rewritten so that every
// map iteration goes through verifmap (seeded permutation); the generators are built from A and run on
// pristine scratch copies B of the working tree, one per seed, exactly as `go generate` would run them.

type directive struct {
	Dir  string // relative to the repo root
	File string
	Pkg  string
	Line int
	Gen  string // gombok | template_gen | monad_gen
	// Fixture: the directive belongs to a fixture package of /verif, not to the repository
	Fixture bool
	// MayFail: the fixture package has a MAYFAIL file - the generator may refuse its (deliberately invalid) input
	MayFail bool
}

// repoRoot is /repo; VERIF_REPO overrides it only for trying seeded changes in scratch worktrees.
var repoRoot = func() string {
	if v := os.Getenv("VERIF_REPO"); v != "" {
		return v
	}
	return "/repo"
}()

func findDirectives() ([]directive, error) {
	var out []directive
	err := filepath.Walk(repoRoot, func(p string, info os.FileInfo, err error) error {
		if err != nil {
			return err
		}
		if info.IsDir() {
			if info.Name() == ".git" {
				return filepath.SkipDir
			}
			return nil
		}
		if !strings.HasSuffix(p, ".go") || strings.HasSuffix(p, "_test.go") {
			return nil
		}
		b, err := os.ReadFile(p)
		if err != nil {
			return err
		}
		if !bytes.Contains(b, []byte("//go:generate")) {
			return nil
		}
		pkg := ""
		sc := bufio.NewScanner(bytes.NewReader(b))
		sc.Buffer(make([]byte, 1<<20), 1<<24)
		ln := 0
		var found []directive
		for sc.Scan() {
			ln++
			t := sc.Text()
			if strings.HasPrefix(t, "package ") && pkg == "" {
				pkg = strings.Fields(t)[1]
			}
			if strings.HasPrefix(t, "//go:generate go run github.com/csgura/fp/") {
				path := strings.Fields(t)[3]
				rel, _ := filepath.Rel(repoRoot, filepath.Dir(p))
				found = append(found, directive{Dir: rel, File: filepath.Base(p), Line: ln, Gen: filepath.Base(path)})
			}
		}
		for i := range found {
			found[i].Pkg = pkg
		}
		out = append(out, found...)
		return nil
	})
	sort.SliceStable(out, func(i, j int) bool {
		if out[i].Dir != out[j].Dir {
			return out[i].Dir < out[j].Dir
		}
		if out[i].File != out[j].File {
			return out[i].File < out[j].File
		}
		return out[i].Line < out[j].Line
	})
	return out, err
}

func run(dir string, env []string, name string, args ...string) (string, error) {
	cmd := exec.Command(name, args...)
	cmd.Dir = dir
	cmd.Env = append(os.Environ(), env...)
	var buf bytes.Buffer
	cmd.Stdout = &buf
	cmd.Stderr = &buf
	err := cmd.Run()
	return buf.String(), err
}

func copyTree(dst string) error {
	if err := os.MkdirAll(dst, 0o755); err != nil {
		return err
	}
	out, err := run("/", nil, "rsync", "-a", "--exclude", ".git", repoRoot+"/", dst+"/")
	if err != nil {
		return fmt.Errorf("rsync: %v: %s", err, out)
	}
	return nil
}

func generatedFiles(root string) (map[string]bool, error) {
	out := map[string]bool{}
	err := filepath.Walk(root, func(p string, info os.FileInfo, err error) error {
		if err != nil {
			return err
		}
		if info.IsDir() || !strings.HasSuffix(p, ".go") {
			return nil
		}
		f, err := os.Open(p)
		if err != nil {
			return err
		}
		defer f.Close()
		head := make([]byte, 256)
		n, _ := f.Read(head)
		first := string(head[:n])
		if i := strings.IndexByte(first, '\n'); i >= 0 {
			first = first[:i]
		}
		if strings.HasPrefix(first, "// Code generated") && strings.Contains(first, "DO NOT EDIT") {
			rel, _ := filepath.Rel(root, p)
			out[rel] = true
		}
		return nil
	})
	return out, err
}

// fixtures: packages kept in /verif/harness/c13fixtures/<name>/*.go.txt that carry generator directives with many
// fields / delegates / instances. They are copied into every pristine scratch copy as test/internal/<name> (never
// into the repository); there is no committed output for them, so their oracle is: identical output for every seed,
// every pass and every route.
const fixtureRoot = "test/internal"

func fixtureNames() []string {
	ents, _ := os.ReadDir(filepath.Join(verifDir(), "harness", "c13fixtures"))
	var out []string
	for _, e := range ents {
		if e.IsDir() {
			out = append(out, e.Name())
		}
	}
	sort.Strings(out)
	return out
}

func installFixtures(B string) error {
	for _, name := range fixtureNames() {
		dst := filepath.Join(B, fixtureRoot, name)
		if err := os.MkdirAll(dst, 0o755); err != nil {
			return err
		}
		files, _ := filepath.Glob(filepath.Join(verifDir(), "harness", "c13fixtures", name, "*.go.txt"))
		for _, f := range files {
			b, err := os.ReadFile(f)
			if err != nil {
				return err
			}
			if err := os.WriteFile(filepath.Join(dst, strings.TrimSuffix(filepath.Base(f), ".txt")), b, 0o644); err != nil {
				return err
			}
		}
	}
	return nil
}

func fixtureDirectives() []directive {
	var out []directive
	for _, name := range fixtureNames() {
		files, _ := filepath.Glob(filepath.Join(verifDir(), "harness", "c13fixtures", name, "*.go.txt"))
		sort.Strings(files)
		_, statErr := os.Stat(filepath.Join(verifDir(), "harness", "c13fixtures", name, "MAYFAIL"))
		mayFail := statErr == nil
		for _, f := range files {
			b, _ := os.ReadFile(f)
			pkg, ln := "", 0
			for _, t := range strings.Split(string(b), "\n") {
				ln++
				if strings.HasPrefix(t, "package ") && pkg == "" {
					pkg = strings.Fields(t)[1]
				}
				if strings.HasPrefix(t, "//go:generate go run github.com/csgura/fp/") {
					out = append(out, directive{Dir: filepath.Join(fixtureRoot, name), File: strings.TrimSuffix(filepath.Base(f), ".txt"), Pkg: pkg, Line: ln,
						Gen: filepath.Base(strings.Fields(t)[3]), Fixture: true, MayFail: mayFail})
				}
			}
		}
	}
	return out
}

// applyFixtureEdits applies the scripted source edits of every fixture package inside B; it returns how many were applied.
func applyFixtureEdits(B string) int {
	n := 0
	for _, name := range fixtureNames() {
		b, err := os.ReadFile(filepath.Join(verifDir(), "harness", "c13fixtures", name, "EDITS"))
		if err != nil {
			continue
		}
		for _, l := range strings.Split(string(b), "\n") {
			if strings.HasPrefix(l, "#") || strings.TrimSpace(l) == "" {
				continue
			}
			f := strings.Split(l, "\t")
			if len(f) != 3 {
				continue
			}
			p := filepath.Join(B, fixtureRoot, name, f[0])
			src, err := os.ReadFile(p)
			if err != nil || !strings.Contains(string(src), f[1]) {
				continue
			}
			os.WriteFile(p, []byte(strings.Replace(string(src), f[1], f[2], 1)), 0o644)
			n++
		}
	}
	return n
}

func removeGeneratedFixtureFiles(B string) {
	for _, name := range fixtureNames() {
		g, _ := generatedFiles(filepath.Join(B, fixtureRoot, name))
		for f := range g {
			os.Remove(filepath.Join(B, fixtureRoot, name, f))
		}
	}
}

// fixtureOutput is the concatenation of every generated file below the fixture directories of B.
func fixtureOutput(B string) string {
	var sb strings.Builder
	for _, name := range fixtureNames() {
		files, _ := filepath.Glob(filepath.Join(B, fixtureRoot, name, "*.go"))
		sort.Strings(files)
		for _, f := range files {
			b, _ := os.ReadFile(f)
			fmt.Fprintf(&sb, "==== %s/%s\n%s", name, filepath.Base(f), b)
		}
	}
	return sb.String()
}

type c13seedResult struct {
	seed      uint64
	procs     int
	execs     int
	diff      string
	orphans   []string // generated files nothing wrote
	unmarked  []string // written files without the generated header
	genErr    string
	permuted  int
	iterTotal int
	fixOut    []string // fixture output after each pass
	editOut   []string // fixture output after the scripted source edit (regenerated on top / generated from scratch)
	editDiff  string
	refused   int      // executions in which a generator refused a MAYFAIL fixture
	viaLink   int      // chunks whose generators ran in a checkout reached through a symbolic link
}

// c13OneSeed regenerates the whole repository under one seed. The directives are split into chunks by
// directory; each chunk runs sequentially (like go generate) in its own pristine copy, chunks run in parallel.
func c13OneSeed(scratch, binDir string, dirs []directive, seed uint64, idx int, passes int) c13seedResult {
	res := c13seedResult{seed: seed, procs: []int{1, 4, 16}[seed%3]}
	const nChunks = 4
	chunks := make([][]int, nChunks)
	lastDir, ci := "", -1
	for i, d := range dirs {
		group := d.Dir
		if d.Fixture {
			group = "<fixtures>" // all fixture packages are generated in one copy (their output is compared as a whole)
		}
		if group != lastDir {
			ci++
			lastDir = group
		}
		chunks[ci%nChunks] = append(chunks[ci%nChunks], i)
	}
	stats := filepath.Join(scratch, fmt.Sprintf("stats%d.txt", idx))
	old := time.Date(2001, 1, 1, 0, 0, 0, 0, time.UTC)
	var mu sync.Mutex
	written := map[string]bool{}
	var gen map[string]bool
	var wg sync.WaitGroup
	for c := 0; c < nChunks; c++ {
		wg.Add(1)
		go func(c int) {
			defer wg.Done()
			B := filepath.Join(scratch, fmt.Sprintf("B%d_%d", idx, c))
			defer os.RemoveAll(B)
			fail := func(msg string) {
				mu.Lock()
				if res.genErr == "" {
					res.genErr = msg
				}
				mu.Unlock()
			}
			if err := copyTree(B); err != nil {
				fail(err.Error())
				return
			}
			if err := installFixtures(B); err != nil {
				fail(err.Error())
				return
			}
			// route fault: for every other (seed, chunk) the generators are started in the same checkout reached
			// through a symbolic link (a symlinked GOPATH / home directory): logical and physical paths then differ
			route := B
			if (int(seed>>7)+c)%2 == 1 {
				link := B + "_link"
				os.Remove(link)
				if err := os.Symlink(B, link); err == nil {
					defer os.Remove(link)
					route = link
					mu.Lock()
					res.viaLink++
					mu.Unlock()
				}
			}
			filepath.Walk(B, func(p string, info os.FileInfo, err error) error {
				if err == nil && !info.IsDir() {
					os.Chtimes(p, old, old)
				}
				return nil
			})
			runDirs := func(idxs []int, pass int) bool {
				for _, i := range idxs {
					d := dirs[i]
					env := []string{
						"GOPACKAGE=" + d.Pkg, "GOFILE=" + d.File, "GOLINE=" + strconv.Itoa(d.Line), "DOLLAR=$",
						"VERIF_MAP_SEED=" + strconv.FormatUint(sim.Mix(seed, "c13", uint64(pass*1000+i)), 10),
						"VERIF_MAP_STATS=" + stats,
						"GOMAXPROCS=" + strconv.Itoa(res.procs),
						"GOFLAGS=-mod=mod", "GOPROXY=off", "GOSUMDB=off", "GOTOOLCHAIN=local",
						"PWD=" + filepath.Join(route, d.Dir),
					}
					out, err := run(filepath.Join(route, d.Dir), env, filepath.Join(binDir, d.Gen))
					mu.Lock()
					res.execs++
					mu.Unlock()
					if err != nil && d.MayFail {
						// allowed to refuse this input; what it left behind is compared like any other fixture output
						mu.Lock()
						res.refused++
						mu.Unlock()
						continue
					}
					if err != nil {
						fail(fmt.Sprintf("%s in %s (%s) failed: %v\n%s", d.Gen, d.Dir, d.File, err, tail(out, 1500)))
						return false
					}
				}
				return true
			}
			var fixIdx []int
			for _, i := range chunks[c] {
				if dirs[i].Fixture {
					fixIdx = append(fixIdx, i)
				}
			}
			for pass := 0; pass < passes; pass++ {
				if !runDirs(chunks[c], pass) {
					return
				}
				if pass == 0 {
					g, _ := generatedFiles(B)
					mu.Lock()
					if gen == nil {
						gen = map[string]bool{}
					}
					for f := range g { // union: fixture outputs exist only in the chunk that generated them
						gen[f] = true
					}
					filepath.Walk(B, func(p string, info os.FileInfo, err error) error {
						if err == nil && !info.IsDir() && info.ModTime().After(old.Add(time.Hour)) {
							rel, _ := filepath.Rel(B, p)
							written[rel] = true
						}
						return nil
					})
					mu.Unlock()
				}
				hasFix := false
				for _, i := range chunks[c] {
					hasFix = hasFix || dirs[i].Fixture
				}
				if hasFix {
					mu.Lock()
					res.fixOut = append(res.fixOut, fixtureOutput(B))
					mu.Unlock()
				}
				dargs := []string{"-r", "-u", "--exclude=.git"}
				for _, name := range fixtureNames() {
					dargs = append(dargs, "--exclude="+name)
				}
				out, err := run("/", nil, "diff", append(dargs, repoRoot, B)...)
				if err != nil && out != "" {
					mu.Lock()
					if res.diff == "" {
						res.diff = fmt.Sprintf("pass %d:\n%s", pass+1, out)
					}
					mu.Unlock()
					return
				}
			}
			if passes == 1 && len(fixIdx) > 0 {
				// the fixtures start without any generated file: a second run on top of the first output must not change it
				if !runDirs(fixIdx, 1) {
					return
				}
				mu.Lock()
				res.fixOut = append(res.fixOut, fixtureOutput(B))
				mu.Unlock()
			}
			if len(fixIdx) > 0 && res.genErr == "" {
				// history fault: the fixture sources are edited (harness/c13fixtures/<name>/EDITS) and regenerated on top of
				// the previous output; the result must be exactly what a generation from scratch of the edited sources gives
				// (a generator that keeps a file it no longer produces leaves a stale generated file behind)
				if n := applyFixtureEdits(B); n > 0 {
					if !runDirs(fixIdx, 2) {
						return
					}
					onTop := fixtureOutput(B)
					removeGeneratedFixtureFiles(B)
					if !runDirs(fixIdx, 3) {
						return
					}
					scratch := fixtureOutput(B)
					mu.Lock()
					res.editOut = append(res.editOut, scratch)
					if onTop != scratch && res.editDiff == "" {
						res.editDiff = diffText(scratch, onTop)
					}
					mu.Unlock()
				}
			}
			if false && passes == 1 && len(fixIdx) > 0 {
				// the fixtures start without any generated file: a second run on top of the first output must not change it
				if !runDirs(fixIdx, 1) {
					return
				}
				mu.Lock()
				res.fixOut = append(res.fixOut, fixtureOutput(B))
				mu.Unlock()
			}
		}(c)
	}
	wg.Wait()
	if res.genErr != "" || res.diff != "" {
		return res
	}
	for f := range gen {
		if !written[f] {
			res.orphans = append(res.orphans, f)
		}
	}
	for f := range written {
		if !gen[f] && strings.HasSuffix(f, ".go") {
			res.unmarked = append(res.unmarked, f)
		}
	}
	sort.Strings(res.orphans)
	sort.Strings(res.unmarked)
	if b, err := os.ReadFile(stats); err == nil {
		for _, l := range strings.Split(strings.TrimSpace(string(b)), "\n") {
			var t, p, s int
			if n, _ := fmt.Sscanf(l, "%d %d %d", &t, &p, &s); n == 3 {
				res.iterTotal += t
				res.permuted += p
			}
		}
	}
	return res
}

func cmdC13(args []string) {
	fs := flag.NewFlagSet("c13", flag.ExitOnError)
	tier := fs.String("tier", "", "")
	seedF := fs.String("seed", "", "")
	nSeeds := fs.Int("seeds", 0, "")
	mapSeed := fs.Uint64("mapseed", 0, "replay: run exactly this map-order seed")
	noEvidence := fs.Bool("no-evidence", false, "")
	fs.Parse(args)
	if *tier == "" {
		*tier = os.Getenv("VERIF_TIER")
	}
	if *tier == "" {
		*tier = "quick"
	}
	seedStr := *seedF
	if seedStr == "" {
		seedStr = os.Getenv("VERIF_SEED")
	}
	var seed uint64 = 20261003
	if seedStr != "" {
		v, err := strconv.ParseInt(seedStr, 10, 64)
		if err != nil {
			die2("bad seed %q", seedStr)
		}
		seed = uint64(v)
	}
	// quick: 2 seeds x 1 pass; thorough: 16 seeds x 2 passes (the second pass regenerates on top of the first)
	n, passes := 2, 1
	if *tier == "thorough" {
		n, passes = 16, 2
	}
	if *nSeeds > 0 {
		n = *nSeeds
	}
	if *mapSeed != 0 {
		n, passes = 1, 2
	}
	fmt.Printf("verifsim: property=C13 tier=%s VERIF_SEED=%d (%d seeds x %d pass(es) over the whole repository)\n", *tier, int64(seed), n, passes)
	start := time.Now()
	scratch, err := os.MkdirTemp("", "verif-c13-")
	if err != nil {
		die2("%v", err)
	}
	defer os.RemoveAll(scratch)
	env := []string{"GOFLAGS=-mod=mod", "GOPROXY=off", "GOSUMDB=off", "GOTOOLCHAIN=local", "CGO_ENABLED=0"}
	A := filepath.Join(scratch, "A")
	if err := copyTree(A); err != nil {
		die2("%v", err)
	}
	rw := filepath.Join(verifDir(), "harness", "bin", "maprewrite")
	out, err := run(A, env, rw, A, filepath.Join(verifDir(), "harness", "verifmap", "verifmap.go.txt"))
	if err != nil {
		die2("maprewrite failed: %v\n%s", err, tail(out, 3000))
	}
	rewriteLine := strings.TrimSpace(out)
	fmt.Println(rewriteLine)
	binDir := filepath.Join(scratch, "bin")
	os.MkdirAll(binDir, 0o755)
	out, err = run(A, env, "go", "build", "-o", binDir+"/", "./cmd/gombok", "./internal/generator/template_gen", "./internal/generator/monad_gen")
	if err != nil {
		die2("building the generators from the rewritten copy failed: %v\n%s", err, tail(out, 3000))
	}
	os.RemoveAll(A)
	dirs, err := findDirectives()
	if err != nil || len(dirs) == 0 {
		die2("no go:generate directives found: %v", err)
	}
	for _, name := range fixtureNames() {
		if _, err := os.Stat(filepath.Join(repoRoot, fixtureRoot, name)); err == nil {
			die2("the repository already has a directory %s/%s: rename the fixture", fixtureRoot, name)
		}
	}
	nRepoDirs := len(dirs)
	dirs = append(dirs, fixtureDirectives()...)
	results := make([]c13seedResult, n)
	var wg sync.WaitGroup
	sem := make(chan struct{}, 4)
	for i := 0; i < n; i++ {
		wg.Add(1)
		go func(i int) {
			defer wg.Done()
			sem <- struct{}{}
			defer func() { <-sem }()
			ms := sim.Mix(seed, "C13", uint64(i))
			if *mapSeed != 0 {
				ms = *mapSeed
			}
			results[i] = c13OneSeed(scratch, binDir, dirs, ms, i, passes)
		}(i)
	}
	wg.Wait()

	nViol := 0
	execs, permuted, iters, nontrivial := 0, 0, 0, 0
	os.MkdirAll(filepath.Join(verifDir(), "replays"), 0o755)
	report := func(r c13seedResult, class, detail string) {
		nViol++
		path := filepath.Join(verifDir(), "replays", fmt.Sprintf("C13-%d-%s.json", r.seed, class))
		jb, _ := json.MarshalIndent(map[string]any{"property": "C13", "tier": *tier, "class": class, "map_seed": r.seed, "gomaxprocs": r.procs,
			"detail": detail, "run_seed": r.seed}, "", " ")
		os.WriteFile(path, jb, 0o644)
		fmt.Printf("violation class=%s map_seed=%d gomaxprocs=%d\n  %s\n", class, r.seed, r.procs, firstLine(detail))
		fmt.Printf("VIOLATION property=C13 replay=%s\n", path)
	}
	seen := map[string]bool{}
	fixRef, fixRuns, viaLink := "", 0, 0
	editRef, editRuns := "", 0
	for _, r := range results {
		viaLink += r.viaLink
		if r.editDiff != "" && !seen["edit"] {
			seen["edit"] = true
			report(r, "fixture-stale-after-edit", "after a source edit of the fixture packages, regenerating on top of the previous output leaves something else than generating the edited sources from scratch (lines marked + are what regeneration on top left behind):\n"+head(r.editDiff, 6000))
		}
		for _, eo := range r.editOut {
			editRuns++
			if editRef == "" {
				editRef = eo
			}
			if eo != editRef && !seen["fixture"] {
				seen["fixture"] = true
				report(r, "fixture-output-differs", "the generators' output for the edited fixture packages differs between seeds:\n"+head(diffText(editRef, eo), 6000))
			}
		}
		for k, fo := range r.fixOut {
			fixRuns++
			if fixRef == "" {
				fixRef = fo
			}
			if fo != fixRef && !seen["fixture"] {
				seen["fixture"] = true
				report(r, "fixture-output-differs", fmt.Sprintf("the generators' output for the fixture packages %v differs between runs on the same input (seed %d pass %d against the first run):\n%s",
					fixtureNames(), r.seed, k+1, head(diffText(fixRef, fo), 6000)))
			}
		}
		execs += r.execs
		permuted += r.permuted
		iters += r.iterTotal
		if r.permuted > 0 {
			nontrivial++
		}
		if r.genErr != "" {
			if !seen["err"] {
				report(r, "generator-failed", r.genErr)
			}
			seen["err"] = true
			continue
		}
		if r.diff != "" && !seen["diff"] {
			seen["diff"] = true
			report(r, "not-a-fixpoint", "regenerating changes committed files:\n"+head(r.diff, 6000))
		}
		if len(r.orphans) > 0 && !seen["orphans"] {
			seen["orphans"] = true
			report(r, "generated-file-without-generator", fmt.Sprintf("files carrying a 'Code generated ... DO NOT EDIT' header that no go:generate directive of the repository writes: %v", r.orphans))
		}
		if len(r.unmarked) > 0 && !seen["unmarked"] {
			seen["unmarked"] = true
			report(r, "generator-writes-unmarked-file", fmt.Sprintf("generators wrote files without a generated-code header: %v", r.unmarked))
		}
	}
	wallS := time.Since(start).Seconds()
	samples := []any{}
	for i, d := range dirs {
		if i < 3 {
			samples = append(samples, map[string]any{"dir": d.Dir, "file": d.File, "generator": d.Gen, "GOPACKAGE": d.Pkg})
		}
	}
	for i, r := range results {
		if i < 2 {
			samples = append(samples, map[string]any{"map_seed": r.seed, "gomaxprocs": r.procs, "generator_executions": r.execs, "map_iterations_permuted": r.permuted})
		}
	}
	ev := map[string]any{
		"property_id": "C13", "tier": *tier, "seed": int64(seed), "level": "exploration", "wall_s": wallS, "violations": nViol,
		"assumptions": []string{
			"the seam is manufactured: generators are built from a rewritten scratch copy in which every map iteration (" + rewriteLine + ") goes through a seeded permutation; the generators' input is a pristine copy of the working tree",
			"go/packages runs `go list` subprocesses whose internal ordering is not owned by the simulator; keys without a canonical string (pointers without Pos) get a process-dependent base order before the seeded shuffle",
		},
		"coverage": map[string]any{
			"evaluations":         execs,
			"distinct_nontrivial": nontrivial * len(dirs),
			"rule": "one evaluation = one generator execution (directive x pass x seed) with its own map-order permutation seed; per seed the whole repository is regenerated (thorough: twice, the second pass on top of the first) in a pristine copy and compared byte for byte with the working tree; " +
				"non-trivial = the execution belongs to a seed whose processes permuted at least one map iteration over >= 2 keys (measured by verifmap); distinct = (seed, directive)",
			"samples":                     samples,
			"exhaustive":                  false,
			"seeds":                       n,
			"directives":                  nRepoDirs,
			"fixture_directives":          len(dirs) - nRepoDirs,
			"fixture_packages":            fixtureNames(),
			"fixture_outputs_compared":    fixRuns,
			"fixture_source_edit_histories": editRuns,
			"chunks_run_through_a_symlinked_checkout": viaLink,
			"map_iterations":              iters,
			"map_iterations_permuted":     permuted,
			"gomaxprocs_values":           []int{1, 4, 16},
			"simulated_time":              "none",
			"real_components":             []string{"cmd/gombok", "internal/generator/template_gen", "internal/generator/monad_gen", "genfp, metafp and every fp package they use (built from the rewritten copy)"},
			"stubbed_components":          []string{"Go map iteration order inside the generators (seeded permutation)", "GOMAXPROCS"},
			"faults_fired":                map[string]int{"map-iteration-permuted": permuted, "checkout-reached-through-symlink": viaLink, "fixture-sources-edited-then-regenerated": editRuns},
			"generated_files_in_the_tree": countGenerated(),
		},
	}
	if execs == 0 {
		die2("no generator executed")
	}
	if !*noEvidence && *mapSeed == 0 {
		jb, _ := json.MarshalIndent(ev, "", " ")
		os.MkdirAll(filepath.Join(verifDir(), "evidence"), 0o755)
		os.WriteFile(filepath.Join(verifDir(), "evidence", "C13.json"), jb, 0o644)
	}
	fmt.Printf("verifsim: C13 %s: %d generator executions over %d seeds, %d map iterations permuted, %.1fs, %d violation(s)\n", *tier, execs, n, permuted, wallS, nViol)
	if nViol > 0 {
		os.Exit(1)
	}
}

// diffText shows the first differing lines of two texts.
func diffText(a, b string) string {
	la, lb := strings.Split(a, "\n"), strings.Split(b, "\n")
	var sb strings.Builder
	n := 0
	for i := 0; i < len(la) || i < len(lb); i++ {
		var x, y string
		if i < len(la) {
			x = la[i]
		}
		if i < len(lb) {
			y = lb[i]
		}
		if x != y {
			fmt.Fprintf(&sb, "line %d:\n- %s\n+ %s\n", i+1, x, y)
			n++
			if n >= 40 {
				break
			}
		}
	}
	return sb.String()
}

func countGenerated() int {
	g, _ := generatedFiles(repoRoot)
	return len(g)
}
