// verifsim: driver of the deterministic simulation checks.
//
//	verifsim run    -prop C05 -tier quick|thorough [-seed N] [-workers W]
//	verifsim worker ...            (internal)
//	verifsim replay <file>
//	verifsim selftest -prop C05 [-n 200]
//
// exit 0: property held on everything explored; 1: violation (VIOLATION lines on stdout);
// 2: trouble in the machinery itself (never reported as a violation).
package main

import (
	"bufio"
	"bytes"
	"crypto/sha256"
	"encoding/hex"
	"encoding/json"
	"flag"
	"fmt"
	"os"
	"os/exec"
	"path/filepath"
	"regexp"
	"runtime"
	"runtime/debug"
	"sort"
	"strconv"
	"strings"
	"sync"
	"time"

	"verif/harness/props"
	"verif/harness/sim"
)

func verifDir() string {
	if d := os.Getenv("VERIF_DIR"); d != "" {
		return d
	}
	return "/verif"
}

func die2(format string, a ...any) {
	fmt.Fprintf(os.Stderr, "verifsim: "+format+"\n", a...)
	os.Exit(2)
}

func main() {
	if len(os.Args) < 2 {
		die2("usage: verifsim run|worker|replay|selftest ...")
	}
	defer func() {
		if p := recover(); p != nil {
			if he, ok := p.(sim.HarnessError); ok {
				die2("%s", he.Error())
			}
			panic(p)
		}
	}()
	switch os.Args[1] {
	case "run":
		cmdRun(os.Args[2:])
	case "worker":
		cmdWorker(os.Args[2:])
	case "replay":
		cmdReplay(os.Args[2:])
	case "selftest":
		cmdSelftest(os.Args[2:])
	case "c13":
		cmdC13(os.Args[2:])
	case "list":
		for _, id := range props.IDs() {
			fmt.Println(id)
		}
	default:
		die2("unknown command %s", os.Args[1])
	}
}

// ---------------------------------------------------------------- worker

type ViolOut struct {
	Property  string   `json:"property"`
	Tier      string   `json:"tier"`
	RunSeed   uint64   `json:"run_seed"`
	RunIndex  int      `json:"run_index"`
	Case      string   `json:"case"`
	Class     string   `json:"class"`
	Detail    string   `json:"detail"`
	Trace     []int    `json:"trace"`
	Labels    []string `json:"labels,omitempty"`
	OrigLen   int      `json:"original_trace_len"`
	ShrinkRun int      `json:"shrink_executions"`
	Log       []string `json:"log"`
	Crash     bool     `json:"crash,omitempty"`
	CrashOut  string   `json:"crash_output,omitempty"`
	// Fine: found by (and only replayable with) the statement-granularity build of the library (see ./check, fine mode)
	Fine bool   `json:"fine_grained,omitempty"`
	Path string `json:"-"`
}

// fineMode: this binary was built against a scratch copy of the library in which tools yieldrewrite put a scheduling
// point in front of every statement of the files the property is anchored in (the check script sets VERIF_FINE).
var fineMode = os.Getenv("VERIF_FINE") != ""

// seedKey separates the run seeds of the two modes.
func seedKey(id string) string {
	if fineMode {
		return id + "#fine"
	}
	return id
}

type Sample struct {
	RunIndex int      `json:"run_index"`
	RunSeed  uint64   `json:"run_seed"`
	Case     string   `json:"case"`
	Steps    int      `json:"steps"`
	TraceLen int      `json:"decisions"`
	Log      []string `json:"log"`
}

type WorkerOut struct {
	Runs        int              `json:"runs"`
	Steps       int64            `json:"steps"`
	Switches    int64            `json:"switches"`
	Decisions   int64            `json:"decisions"`
	NonTrivial  int              `json:"nontrivial"`
	Fingerprint []uint64         `json:"fingerprints"`
	Probes      map[string]int64 `json:"probes"`
	Faults      map[string]int64 `json:"faults"`
	Cases       map[string]int64 `json:"cases"`
	Blocked     int64            `json:"blocked_seen"`
	Leaked      int              `json:"leaked"`
	Violations  []ViolOut        `json:"violations"`
	Samples     []Sample         `json:"samples"`
	WallS       float64          `json:"wall_s"`
	Complete    bool             `json:"complete"`
}

func cmdWorker(args []string) {
	fs := flag.NewFlagSet("worker", flag.ExitOnError)
	propID := fs.String("prop", "", "")
	tier := fs.String("tier", "quick", "")
	seed := fs.Uint64("seed", 1, "")
	from := fs.Int("from", 0, "")
	to := fs.Int("to", 0, "")
	stride := fs.Int("stride", 1, "")
	out := fs.String("out", "", "")
	journal := fs.String("journal", "", "")
	wall := fs.Duration("wall", time.Minute, "")
	nSamples := fs.Int("samples", 0, "")
	maxViol := fs.Int("maxviol", 3, "")
	fs.Parse(args)
	p := props.Get(*propID)
	if p == nil {
		die2("unknown property %s", *propID)
	}
	mb := p.MaxStackMB
	if mb == 0 {
		mb = 64
	}
	debug.SetMaxStack(mb << 20)
	sim.Thorough = *tier == "thorough"
	sim.OwnGC(2 << 30)
	sim.StartHangMonitor()

	var jf *os.File
	if *journal != "" {
		var err error
		jf, err = os.OpenFile(*journal, os.O_CREATE|os.O_WRONLY|os.O_TRUNC, 0o644)
		if err != nil {
			die2("journal: %v", err)
		}
	}
	wo := &WorkerOut{Probes: map[string]int64{}, Faults: map[string]int64{}, Cases: map[string]int64{}}
	fpset := map[uint64]struct{}{}
	start := time.Now()
	shrinkBudget := p.ShrinkQuick
	if *tier == "thorough" {
		shrinkBudget = p.ShrinkThorough
	}
	flush := func(complete bool) {
		wo.Complete = complete
		wo.WallS = time.Since(start).Seconds()
		wo.Fingerprint = wo.Fingerprint[:0]
		for k := range fpset {
			wo.Fingerprint = append(wo.Fingerprint, k)
		}
		sort.Slice(wo.Fingerprint, func(i, j int) bool { return wo.Fingerprint[i] < wo.Fingerprint[j] })
		b, _ := json.Marshal(wo)
		if err := os.WriteFile(*out, b, 0o644); err != nil {
			die2("write %s: %v", *out, err)
		}
	}
	classesSeen := map[string]bool{}
	lastFlush := time.Now()
	for i := *from; i < *to; i += *stride {
		if time.Since(lastFlush) > 2*time.Second {
			flush(false)
			lastFlush = time.Now()
		}
		if time.Since(start) > *wall {
			break
		}
		if jf != nil {
			jf.WriteAt([]byte(fmt.Sprintf("%012d\n", i)), 0)
		}
		rs := sim.Mix(*seed, seedKey(p.ID), uint64(i))
		r := sim.NewRun(rs)
		func() {
			defer r.Close()
			p.Exec(r)
		}()
		sim.GCBetweenRuns()
		wo.Runs++
		wo.Steps += int64(r.Steps)
		wo.Switches += int64(r.Switches)
		wo.Decisions += int64(len(r.Trace))
		wo.Blocked += int64(r.BlockedSeen)
		wo.Leaked += r.Leaked
		wo.Cases[r.Case]++
		for k, v := range r.Probes {
			wo.Probes[k] += int64(v)
		}
		for k, v := range r.Faults {
			wo.Faults[k] += int64(v)
		}
		if r.NonTriv {
			wo.NonTrivial++
			fpset[r.Fingerprint()] = struct{}{}
			if len(wo.Samples) < *nSamples {
				rr := sim.Replay(p.Exec, r.Trace, true)
				lg := rr.Log
				if len(lg) > 60 {
					lg = append(append([]string{}, lg[:58]...), fmt.Sprintf("... (%d more lines)", len(lg)-58))
				}
				wo.Samples = append(wo.Samples, Sample{RunIndex: i, RunSeed: rs, Case: r.Case, Steps: r.Steps, TraceLen: len(r.Trace), Log: lg})
			}
		}
		if r.Viol != nil {
			if classesSeen[r.Viol.Class] && len(wo.Violations) > 0 {
				// same class already minimised in this worker; count only
				wo.Probes["violating-runs"]++
				continue
			}
			classesSeen[r.Viol.Class] = true
			wo.Probes["violating-runs"]++
			v := minimise(p, *tier, rs, i, r, shrinkBudget)
			wo.Violations = append(wo.Violations, v)
			flush(false)
			if len(wo.Violations) >= *maxViol {
				break
			}
		}
	}
	flush(true)
}

// minimise shrinks the failing trace and re-executes the result with logging on.
func minimise(p *props.Prop, tier string, rs uint64, idx int, r *sim.Run, budget time.Duration) ViolOut {
	class := r.Viol.Class
	orig := append([]int(nil), r.Trace...)
	// first: does the plain replay of the full trace reproduce? (determinism check)
	rr := sim.Replay(p.Exec, orig, false)
	if rr.Viol == nil || rr.Viol.Class != class {
		got := "no violation"
		if rr.Viol != nil {
			got = rr.Viol.Class + ": " + rr.Viol.Detail
		}
		die2("nondeterminism: run %d (seed %d) of %s reported %q but its trace replays to %q", idx, rs, p.ID, class+": "+r.Viol.Detail, got)
	}
	small, n := sim.Shrink(p.Exec, orig, class, budget)
	fin := sim.Replay(p.Exec, small, true)
	if fin.Viol == nil || fin.Viol.Class != class {
		// fall back to the unshrunk trace
		small = orig
		fin = sim.Replay(p.Exec, small, true)
		if fin.Viol == nil {
			die2("nondeterminism while minimising run %d of %s", idx, p.ID)
		}
	}
	return ViolOut{Property: p.ID, Tier: tier, RunSeed: rs, RunIndex: idx, Case: fin.Case, Class: fin.Viol.Class, Detail: fin.Viol.Detail,
		Trace: small, Labels: fin.Labels, OrigLen: len(orig), ShrinkRun: n, Log: fin.Log}
}

// ---------------------------------------------------------------- known findings

type Finding struct {
	Property string `json:"property"`
	Status   string `json:"status"` // open | fixed
	Class    string `json:"class"`
	Match    string `json:"match"` // regexp over the violation detail / case of the minimised violation
	What     string `json:"what"`
	Commit   string `json:"commit,omitempty"`
}

func loadFindings() []Finding {
	b, err := os.ReadFile(filepath.Join(verifDir(), "known_findings.json"))
	if err != nil {
		return nil
	}
	var f struct {
		Findings []Finding `json:"findings"`
	}
	if err := json.Unmarshal(b, &f); err != nil {
		die2("known_findings.json: %v", err)
	}
	return f.Findings
}

func matchFinding(fs []Finding, v *ViolOut) *Finding {
	for i := range fs {
		f := &fs[i]
		if f.Status != "open" || f.Property != v.Property || f.Class != v.Class {
			continue
		}
		re, err := regexp.Compile(f.Match)
		if err != nil {
			die2("known_findings.json: bad regexp %q", f.Match)
		}
		if re.MatchString(v.Case + " | " + v.Detail) {
			return f
		}
	}
	return nil
}

// ---------------------------------------------------------------- run

func selfExe() string {
	e, err := os.Executable()
	if err != nil {
		die2("%v", err)
	}
	return e
}

func cmdRun(args []string) {
	fs := flag.NewFlagSet("run", flag.ExitOnError)
	propID := fs.String("prop", "", "")
	tier := fs.String("tier", "", "")
	seedF := fs.String("seed", "", "")
	workers := fs.Int("workers", 0, "")
	runsF := fs.Int("runs", 0, "override the number of runs")
	wallF := fs.Duration("wall", 0, "override the wall budget")
	noEvidence := fs.Bool("no-evidence", false, "")
	summaryOut := fs.String("summary-out", "", "write a JSON summary of this batch to the file")
	fineSummary := fs.String("fine-summary", "", "JSON summary of the statement-granularity batch that ran before this one (goes into the evidence)")
	fs.Parse(args)
	p := props.Get(*propID)
	if p == nil {
		die2("unknown property %q (have %v)", *propID, props.IDs())
	}
	if *tier == "" {
		*tier = os.Getenv("VERIF_TIER")
	}
	if *tier == "" {
		*tier = "quick"
	}
	if *tier != "quick" && *tier != "thorough" {
		die2("bad tier %q", *tier)
	}
	seedStr := *seedF
	if seedStr == "" {
		seedStr = os.Getenv("VERIF_SEED")
	}
	var seed uint64 = 20261003
	if seedStr != "" {
		v, err := strconv.ParseInt(seedStr, 10, 64)
		if err != nil {
			u, err2 := strconv.ParseUint(seedStr, 10, 64)
			if err2 != nil {
				die2("bad seed %q", seedStr)
			}
			v = int64(u)
		}
		seed = uint64(v)
	}
	fmt.Printf("verifsim: property=%s tier=%s VERIF_SEED=%d\n", p.ID, *tier, int64(seed))
	b := p.Quick
	if *tier == "thorough" {
		b = p.Thorough
	}
	if fineMode {
		// statement-granularity runs are several times longer: a fraction of the budget
		b.Runs = max(b.Runs/8, 400)
		b.Wall = b.Wall / 2
		fmt.Printf("verifsim: statement-granularity build of the library (a scheduling point in front of every statement of the anchored files)\n")
	}
	if *runsF > 0 {
		b.Runs = *runsF
	}
	if *wallF > 0 {
		b.Wall = *wallF
	}
	w := *workers
	if w <= 0 {
		w = runtime.NumCPU()
		if w > 16 {
			w = 16
		}
	}
	if w > b.Runs {
		w = b.Runs
	}
	start := time.Now()
	tmp, err := os.MkdirTemp(filepath.Join(verifDir(), "harness"), ".run-"+p.ID+"-")
	if err != nil {
		die2("%v", err)
	}
	defer os.RemoveAll(tmp)

	outs := make([]*WorkerOut, w)
	crashes := make([][]ViolOut, w)
	var wg sync.WaitGroup
	var trouble sync.Map
	for k := 0; k < w; k++ {
		wg.Add(1)
		go func(k int) {
			defer wg.Done()
			outs[k], crashes[k] = superviseWorker(p, *tier, seed, k, w, b, tmp, &trouble)
		}(k)
	}
	wg.Wait()
	bad := false
	trouble.Range(func(k, v any) bool {
		fmt.Fprintf(os.Stderr, "verifsim: worker %v: %v\n", k, v)
		bad = true
		return true
	})
	if bad {
		os.Exit(2)
	}

	// merge
	tot := &WorkerOut{Probes: map[string]int64{}, Faults: map[string]int64{}, Cases: map[string]int64{}}
	fpset := map[uint64]struct{}{}
	var viols []ViolOut
	for k, o := range outs {
		if o == nil {
			continue
		}
		tot.Runs += o.Runs
		tot.Steps += o.Steps
		tot.Switches += o.Switches
		tot.Decisions += o.Decisions
		tot.NonTrivial += o.NonTrivial
		tot.Blocked += o.Blocked
		tot.Leaked += o.Leaked
		for _, f := range o.Fingerprint {
			fpset[f] = struct{}{}
		}
		for kk, v := range o.Probes {
			tot.Probes[kk] += v
		}
		for kk, v := range o.Faults {
			tot.Faults[kk] += v
		}
		for kk, v := range o.Cases {
			tot.Cases[kk] += v
		}
		tot.Samples = append(tot.Samples, o.Samples...)
		viols = append(viols, o.Violations...)
		viols = append(viols, crashes[k]...)
	}
	wallS := time.Since(start).Seconds()

	// one replay file per distinct (class, minimised trace)
	findings := loadFindings()
	seen := map[string]bool{}
	nViol := 0
	known := 0
	os.MkdirAll(filepath.Join(verifDir(), "replays"), 0o755)
	sort.SliceStable(viols, func(i, j int) bool { return viols[i].RunIndex < viols[j].RunIndex })
	for i := range viols {
		v := &viols[i]
		key := v.Class + fmt.Sprint(v.Trace)
		if v.Crash {
			key = "crash" + v.Class
		}
		if seen[v.Class] || seen[key] {
			continue
		}
		seen[key] = true
		seen[v.Class] = true
		if f := matchFinding(findings, v); f != nil {
			fmt.Printf("KNOWN-FINDING: property=%s %s\n", p.ID, f.What)
			known++
			continue
		}
		h := sha256.Sum256([]byte(key))
		suffix := ""
		if fineMode {
			v.Fine = true
			suffix = "-fine"
		}
		path := filepath.Join(verifDir(), "replays", fmt.Sprintf("%s-%d-%s%s.json", p.ID, v.RunSeed, hex.EncodeToString(h[:4]), suffix))
		jb, _ := json.MarshalIndent(v, "", " ")
		if err := os.WriteFile(path, jb, 0o644); err != nil {
			die2("%v", err)
		}
		v.Path = path
		nViol++
		fmt.Printf("violation class=%s case=%s run_index=%d run_seed=%d decisions=%d (from %d)\n  %s\n", v.Class, v.Case, v.RunIndex, v.RunSeed, len(v.Trace), v.OrigLen, firstLine(v.Detail))
		fmt.Printf("VIOLATION property=%s replay=%s\n", p.ID, path)
	}

	if tot.Runs == 0 && nViol == 0 {
		die2("no run executed")
	}
	if tot.Runs == 0 {
		tot.Runs = nViol // the crashed runs themselves
	}
	if *summaryOut != "" {
		sum := map[string]any{"runs": tot.Runs, "scheduler_steps": tot.Steps, "context_switches": tot.Switches, "nontrivial_runs": tot.NonTrivial,
			"distinct_nontrivial": len(fpset), "wall_s": wallS, "violations": nViol, "tasks_blocked_on_a_lock": tot.Blocked, "faults_fired": tot.Faults,
			"run_seeds": fmt.Sprintf("run i uses seed mix(VERIF_SEED=%d, %q, i), i in [0,%d)", int64(seed), seedKey(p.ID), tot.Runs)}
		sb, _ := json.Marshal(sum)
		if err := os.WriteFile(*summaryOut, sb, 0o644); err != nil {
			die2("%v", err)
		}
	}
	if !*noEvidence {
		var fine map[string]any
		if *fineSummary != "" {
			if fb, err := os.ReadFile(*fineSummary); err == nil {
				json.Unmarshal(fb, &fine)
			}
		}
		writeEvidence(p, *tier, seed, tot, len(fpset), wallS, nViol, known, w, fine)
	}
	fmt.Printf("verifsim: %s %s: %d runs, %d steps, %d nontrivial (%d distinct), %.1fs, %d violation(s), %d known finding(s)\n",
		p.ID, *tier, tot.Runs, tot.Steps, tot.NonTrivial, len(fpset), wallS, nViol, known)
	if nViol > 0 {
		os.Exit(1)
	}
}

func firstLine(s string) string {
	if i := strings.IndexByte(s, '\n'); i >= 0 {
		return s[:i]
	}
	return s
}

// superviseWorker runs worker k over its stripe of run indices, restarting it after a fatal
// crash of the Go runtime (stack overflow ...) which is attributed to the journalled run.
func superviseWorker(p *props.Prop, tier string, seed uint64, k, w int, b props.Budget, tmp string, trouble *sync.Map) (*WorkerOut, []ViolOut) {
	from := k
	var acc *WorkerOut
	var crashes []ViolOut
	unrepro := 0
	deadline := time.Now().Add(b.Wall)
	for attempt := 0; attempt < 4; attempt++ {
		out := filepath.Join(tmp, fmt.Sprintf("w%d-%d.json", k, attempt))
		journal := filepath.Join(tmp, fmt.Sprintf("w%d.journal", k))
		remaining := time.Until(deadline)
		if remaining <= 0 {
			break
		}
		nS := 0
		if k == 0 && attempt == 0 {
			nS = 3
		}
		cmd := exec.Command(selfExe(), "worker", "-prop", p.ID, "-tier", tier, "-seed", strconv.FormatUint(seed, 10),
			"-from", strconv.Itoa(from), "-to", strconv.Itoa(b.Runs), "-stride", strconv.Itoa(w), "-out", out, "-journal", journal,
			"-wall", remaining.String(), "-samples", strconv.Itoa(nS))
		cmd.Env = append(os.Environ(), "GOMAXPROCS="+workerProcs())
		var stderr bytes.Buffer
		cmd.Stderr = &stderr
		cmd.Stdout = &stderr
		err := cmd.Run()
		var o WorkerOut
		if bts, rerr := os.ReadFile(out); rerr == nil {
			json.Unmarshal(bts, &o)
		}
		acc = mergeOut(acc, &o)
		if err == nil && o.Complete {
			return acc, crashes
		}
		se := stderr.String()
		if ee, ok := err.(*exec.ExitError); ok && ee.ExitCode() == 2 && !strings.Contains(se, "fatal error:") {
			trouble.Store(k, "exit 2: "+tail(se, 2000))
			return acc, crashes
		}
		if !strings.Contains(se, "fatal error:") && !strings.Contains(se, "runtime: goroutine stack exceeds") {
			trouble.Store(k, fmt.Sprintf("worker failed: %v: %s", err, tail(se, 2000)))
			return acc, crashes
		}
		// fatal runtime error: attribute to the journalled run, confirm alone in a fresh process
		jb, _ := os.ReadFile(journal)
		idx, perr := strconv.Atoi(strings.TrimSpace(string(jb)))
		if perr != nil {
			trouble.Store(k, "fatal error without journal: "+tail(se, 1500))
			return acc, crashes
		}
		out2 := filepath.Join(tmp, fmt.Sprintf("w%d-confirm.json", k))
		c2 := exec.Command(selfExe(), "worker", "-prop", p.ID, "-tier", tier, "-seed", strconv.FormatUint(seed, 10),
			"-from", strconv.Itoa(idx), "-to", strconv.Itoa(idx+1), "-out", out2, "-wall", "5m")
		c2.Env = append(os.Environ(), "GOMAXPROCS="+workerProcs(), "VERIF_CASE_TRACE=1")
		var se2 bytes.Buffer
		c2.Stderr = &se2
		c2.Stdout = &se2
		err2 := c2.Run()
		if err2 == nil || !(strings.Contains(se2.String(), "fatal error:") || strings.Contains(se2.String(), "runtime: goroutine stack exceeds")) {
			// A fatal abort that does not happen again when the same run is executed alone in a fresh process is not a
			// property of that run (one seed = one execution): it is trouble in the machinery or the machine. Said loudly,
			// kept on disk in full, and the stripe goes on behind that run - once; a second one ends the check with exit 2.
			os.MkdirAll(filepath.Join(verifDir(), "harness", ".trouble"), 0o755)
			tf := filepath.Join(verifDir(), "harness", ".trouble", fmt.Sprintf("%s-worker%d-run%d.txt", p.ID, k, idx))
			os.WriteFile(tf, []byte(se), 0o644)
			unrepro++
			if acc != nil && acc.Probes != nil {
				acc.Probes["HARNESS-NOTE: fatal abort of a worker that did not reproduce alone (stripe continued)"]++
			}
			fmt.Fprintf(os.Stderr, "verifsim: NOTE worker %d: fatal error in run %d (%s) did not reproduce alone; full output kept in %s; the stripe continues behind it\n", k, idx, fatalKind(se), tf)
			if unrepro > 1 {
				trouble.Store(k, fmt.Sprintf("a second fatal error (run %d) did not reproduce alone: %s", idx, tail(se, 1500)))
				return acc, crashes
			}
			from = idx + w
			continue
		}
		what := "the Go runtime aborted the process: "
		cls := "fatal:" + fatalKind(se2.String())
		if strings.HasPrefix(fatalKind(se2.String()), "no-return") {
			what, cls = "a call into the library did not return: ", "no-return"
		}
		crashes = append(crashes, ViolOut{Property: p.ID, Tier: tier, RunSeed: sim.Mix(seed, seedKey(p.ID), uint64(idx)), RunIndex: idx,
			Class: cls, Detail: what + fatalKind(se2.String()) + "\n" + crashSummary(se2.String()),
			Crash: true, Fine: fineMode, CrashOut: head(se2.String(), 6000), Case: crashCase(se2.String())})
		if len(crashes) >= 2 {
			return acc, crashes
		}
		from = idx + w
	}
	return acc, crashes
}

func workerProcs() string {
	if v := os.Getenv("VERIF_WORKER_PROCS"); v != "" {
		return v
	}
	return "2"
}

func fatalKind(s string) string {
	i := strings.Index(s, "fatal error:")
	if i < 0 {
		return "unknown"
	}
	return strings.TrimSpace(firstLine(s[i+len("fatal error:"):]))
}

var frameRe = regexp.MustCompile(`(?m)^(github\.com/csgura/fp[^\s(]*)`)

// crashSummary lists the most frequent library frames of the fatal stack (the recursion cycle).
func crashSummary(s string) string {
	cnt := map[string]int{}
	for _, m := range frameRe.FindAllStringSubmatch(s, -1) {
		name := m[1]
		if i := strings.Index(name, "["); i >= 0 {
			name = name[:i]
		}
		cnt[name]++
	}
	type kv struct {
		k string
		v int
	}
	var l []kv
	for k, v := range cnt {
		l = append(l, kv{k, v})
	}
	sort.Slice(l, func(i, j int) bool {
		if l[i].v != l[j].v {
			return l[i].v > l[j].v
		}
		return l[i].k < l[j].k
	})
	var sb strings.Builder
	for i, e := range l {
		if i >= 6 {
			break
		}
		fmt.Fprintf(&sb, "  %s (x%d in the printed stack)\n", e.k, e.v)
	}
	return sb.String()
}

func crashCase(s string) string {
	sc := bufio.NewScanner(strings.NewReader(s))
	for sc.Scan() {
		if strings.HasPrefix(sc.Text(), "verif-case: ") {
			return strings.TrimPrefix(sc.Text(), "verif-case: ")
		}
	}
	return ""
}

func tail(s string, n int) string {
	if len(s) > n {
		return "..." + s[len(s)-n:]
	}
	return s
}
func head(s string, n int) string {
	if len(s) > n {
		return s[:n] + "..."
	}
	return s
}

func mergeOut(a, b *WorkerOut) *WorkerOut {
	if a == nil {
		if b.Probes == nil {
			b.Probes = map[string]int64{}
		}
		if b.Faults == nil {
			b.Faults = map[string]int64{}
		}
		if b.Cases == nil {
			b.Cases = map[string]int64{}
		}
		return b
	}
	a.Runs += b.Runs
	a.Steps += b.Steps
	a.Switches += b.Switches
	a.Decisions += b.Decisions
	a.NonTrivial += b.NonTrivial
	a.Blocked += b.Blocked
	a.Leaked += b.Leaked
	a.Fingerprint = append(a.Fingerprint, b.Fingerprint...)
	for k, v := range b.Probes {
		a.Probes[k] += v
	}
	for k, v := range b.Faults {
		a.Faults[k] += v
	}
	for k, v := range b.Cases {
		a.Cases[k] += v
	}
	a.Violations = append(a.Violations, b.Violations...)
	a.Samples = append(a.Samples, b.Samples...)
	a.WallS += b.WallS
	return a
}

// ---------------------------------------------------------------- evidence

func writeEvidence(p *props.Prop, tier string, seed uint64, t *WorkerOut, distinct int, wallS float64, nViol, known, workers int, fine map[string]any) {
	samples := []any{}
	for i, s := range t.Samples {
		if i >= 3 {
			break
		}
		samples = append(samples, s)
	}
	if len(samples) == 0 {
		samples = append(samples, map[string]any{"note": "no non-trivial run in this batch"})
	}
	cov := map[string]any{
		"evaluations":             t.Runs,
		"distinct_nontrivial":     distinct,
		"nontrivial_runs":         t.NonTrivial,
		"rule":                    p.Rule,
		"samples":                 samples,
		"exhaustive":              false,
		"simulated_runs":          t.Runs,
		"runs_per_hour":           int64(float64(t.Runs) / wallS * 3600),
		"run_seeds":               fmt.Sprintf("run i uses seed mix(VERIF_SEED=%d, %q, i), i in [0,%d)", int64(seed), p.ID, t.Runs),
		"scheduler_steps":         t.Steps,
		"context_switches":        t.Switches,
		"decisions_drawn":         t.Decisions,
		"simulated_time":          "none: no claimed property reads a clock; progress is measured in scheduler steps (logical time)",
		"faults_fired":            t.Faults,
		"probes":                  t.Probes,
		"run_classes":             t.Cases,
		"tasks_blocked_on_a_lock": t.Blocked,
		"leaked_tasks":            t.Leaked,
		"real_components":         p.Real,
		"stubbed_components":      p.Stub,
		"workers":                 workers,
		"known_findings_reported": known,
	}
	if fine != nil {
		// the batch that ran just before this one against the statement-granularity build (its violations, if any, were
		// printed and have their own replay files; its runs are NOT counted in evaluations / distinct_nontrivial above)
		cov["statement_granularity_batch"] = fine
	}
	ev := map[string]any{
		"property_id": p.ID,
		"tier":        tier,
		"seed":        int64(seed),
		"level":       p.Level,
		"coverage":    cov,
		"assumptions": p.Assumptions,
		"wall_s":      wallS,
		"violations":  nViol,
	}
	b, _ := json.MarshalIndent(ev, "", " ")
	os.MkdirAll(filepath.Join(verifDir(), "evidence"), 0o755)
	if err := os.WriteFile(filepath.Join(verifDir(), "evidence", p.ID+".json"), b, 0o644); err != nil {
		die2("%v", err)
	}
}

// ---------------------------------------------------------------- replay

func cmdReplay(args []string) {
	if len(args) != 1 {
		die2("usage: verifsim replay <file>")
	}
	b, err := os.ReadFile(args[0])
	if err != nil {
		die2("%v", err)
	}
	var v ViolOut
	if err := json.Unmarshal(b, &v); err != nil {
		die2("%v", err)
	}
	if v.Property == "C13" {
		cmdC13([]string{"-tier", v.Tier, "-mapseed", strconv.FormatUint(v.RunSeed, 10)})
		return
	}
	p := props.Get(v.Property)
	if p == nil {
		die2("unknown property %s", v.Property)
	}
	sim.OwnGC(2 << 30)
	sim.Thorough = v.Tier == "thorough"
	if v.Crash {
		if os.Getenv("VERIF_REPLAY_CHILD") == "1" {
			mb := p.MaxStackMB
			if mb == 0 {
				mb = 64
			}
			debug.SetMaxStack(mb << 20)
			sim.OwnGC(2 << 30)
			sim.StartHangMonitor()
			r := sim.NewRun(v.RunSeed)
			p.Exec(r)
			r.Close()
			return
		}
		cmd := exec.Command(selfExe(), "replay", args[0])
		cmd.Env = append(os.Environ(), "VERIF_REPLAY_CHILD=1", "VERIF_CASE_TRACE=1")
		var se bytes.Buffer
		cmd.Stderr = &se
		cmd.Stdout = &se
		err := cmd.Run()
		if err != nil && strings.Contains(se.String(), "fatal error:") {
			fmt.Printf("replay: the run aborted again: %s\n%s", fatalKind(se.String()), crashSummary(se.String()))
			fmt.Printf("VIOLATION property=%s replay=%s\n", v.Property, args[0])
			os.Exit(1)
		}
		fmt.Printf("replay: run seed %d no longer crashes\n", v.RunSeed)
		return
	}
	r := sim.Replay(p.Exec, v.Trace, true)
	for _, l := range r.Log {
		fmt.Println(l)
	}
	if r.Viol == nil {
		fmt.Printf("replay: no violation on this trace (recorded: %s)\n", v.Class)
		return
	}
	same := r.Viol.Class == v.Class && equalLogs(r.Log, v.Log)
	fmt.Printf("replay: %s: %s\n", r.Viol.Class, r.Viol.Detail)
	if same {
		fmt.Println("replay: identical violation class and event log as recorded")
	} else if r.Viol.Class == v.Class {
		fmt.Println("replay: same violation class; event log differs from the recorded one (tree changed?)")
	} else {
		fmt.Printf("replay: different violation class than recorded (%s)\n", v.Class)
	}
	fmt.Printf("VIOLATION property=%s replay=%s\n", v.Property, args[0])
	os.Exit(1)
}

func equalLogs(a, b []string) bool {
	if len(a) != len(b) {
		return false
	}
	for i := range a {
		if a[i] != b[i] {
			return false
		}
	}
	return true
}

// ---------------------------------------------------------------- determinism self-test

// selftest: executes n runs with logging on and prints one line per run: index, sha256 of
// (trace, log, violation). The shell wrapper runs this in several processes at several
// GOMAXPROCS values and diffs the outputs.
func cmdSelftest(args []string) {
	fs := flag.NewFlagSet("selftest", flag.ExitOnError)
	propID := fs.String("prop", "", "")
	n := fs.Int("n", 200, "")
	seed := fs.Uint64("seed", 20261003, "")
	dump := fs.Int("dump", -1, "print the full log of this run index")
	from := fs.Int("from", 0, "first run index")
	ref := fs.String("ref", "", "reference output of an earlier selftest: on the first differing line print this run's full log to stderr")
	fs.Parse(args)
	refLines := map[int]string{}
	if *ref != "" {
		b, err := os.ReadFile(*ref)
		if err != nil {
			die2("%v", err)
		}
		for _, l := range strings.Split(string(b), "\n") {
			if sp := strings.IndexByte(l, ' '); sp > 0 {
				if k, err := strconv.Atoi(l[:sp]); err == nil {
					refLines[k] = l
				}
			}
		}
	}
	p := props.Get(*propID)
	if p == nil {
		die2("unknown property %s", *propID)
	}
	mb := p.MaxStackMB
	if mb == 0 {
		mb = 64
	}
	debug.SetMaxStack(mb << 20)
	sim.OwnGC(2 << 30)
	for i := *from; i < *n; i++ {
		rs := sim.Mix(*seed, p.ID, uint64(i))
		r := sim.NewRun(rs)
		r.LogOn = true
		func() {
			defer r.Close()
			p.Exec(r)
		}()
		sim.GCBetweenRuns()
		if i == *dump {
			fmt.Println(r.Trace)
			for _, l := range r.Log {
				fmt.Println(l)
			}
			fmt.Println(r.Fingerprint(), r.Steps, r.Switches, r.Viol)
		}
		h := sha256.New()
		fmt.Fprint(h, r.Trace)
		for _, l := range r.Log {
			fmt.Fprintln(h, l)
		}
		if r.Viol != nil {
			fmt.Fprintln(h, r.Viol.Class)
		}
		fmt.Fprint(h, r.Fingerprint(), r.Steps, r.Switches)
		line := fmt.Sprintf("%d %s steps=%d viol=%v", i, hex.EncodeToString(h.Sum(nil)[:8]), r.Steps, r.Viol != nil)
		fmt.Println(line)
		if want, ok := refLines[i]; ok && want != line {
			fmt.Fprintf(os.Stderr, "selftest: run %d DIVERGES from the reference\n  reference: %s\n  this run : %s\n  trace %v\n", i, want, line, r.Trace)
			for _, l := range r.Log {
				fmt.Fprintln(os.Stderr, "   ", l)
			}
		}
		if r.Viol != nil {
			// a violation during the self-test is worth seeing in full (stderr does not take part in the comparison)
			fmt.Fprintf(os.Stderr, "selftest: run %d violates: %s: %s\n", i, r.Viol.Class, r.Viol.Detail)
			for _, l := range r.Log {
				fmt.Fprintln(os.Stderr, "   ", l)
			}
		}
	}
}
