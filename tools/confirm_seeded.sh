#!/bin/bash
# tools/confirm_seeded.sh <dir with patch.diff + demo_test.go|demo.sh> [nosuite]
# Independent confirmation of a sub-agent's seeded change, in a scratch worktree of /repo's HEAD (never in /repo):
#   1. demo on the clean tree          -> must pass
#   2. demo with the patch applied     -> must fail
#   3. repository's own suite with the patch (demo removed) -> must pass
# Prints "CONFIRM <dir>: clean=<pass|fail> patched=<pass|fail> suite=<pass|fail|skipped>" and writes confirm.log there.
set -u
export GOFLAGS=-mod=mod GOPROXY=off GOSUMDB=off GOTOOLCHAIN=local
d="$(readlink -f "$1")"; nosuite="${2:-}"
name=$(echo "$d" | tr -c 'A-Za-z0-9' '_' | tail -c 40)
wt=/tmp/cf-$name
git -C /repo worktree remove --force "$wt" >/dev/null 2>&1; rm -rf "$wt"
git -C /repo worktree add --detach -f "$wt" HEAD >/dev/null 2>&1 || { echo "cannot create worktree"; exit 2; }
trap 'git -C /repo worktree remove --force "$wt" >/dev/null 2>&1; rm -rf "$wt"' EXIT
log="$d/confirm.log"; : > "$log"
rundemo() {
  if [ -f "$d/demo_test.go" ]; then
    place=$(head -1 "$d/demo_test.go" | sed -n 's#^// place in: *\([^ ]*\).*#\1#p'); place=${place%/}; [ -z "$place" ] && place=.
    cp "$d/demo_test.go" "$wt/$place/zz_seeded_demo_test.go"
    (cd "$wt" && go test -vet=off -count=1 -timeout 10m "./$place/" ) >> "$log" 2>&1; rc=$?
    rm -f "$wt/$place/zz_seeded_demo_test.go"
    return $rc
  else
    (cd "$wt" && sh "$d/demo.sh") >> "$log" 2>&1
  fi
}
echo "=== demo, clean tree" >> "$log"; if rundemo; then clean=pass; else clean=fail; fi
git -C "$wt" checkout -- . ; git -C "$wt" clean -fdq
git -C "$wt" apply "$d/patch.diff" >> "$log" 2>&1 || { echo "CONFIRM $d: PATCH-DOES-NOT-APPLY"; exit 2; }
echo "=== demo, patched tree" >> "$log"; if rundemo; then patched=pass; else patched=fail; fi
git -C "$wt" checkout -- . ; git -C "$wt" clean -fdq; git -C "$wt" apply "$d/patch.diff"
suite=skipped
if [ -z "$nosuite" ]; then
  echo "=== suite, patched tree" >> "$log"
  if (cd "$wt" && go build ./... && go test -vet=off -count=1 -timeout 25m ./... ) > "$d/suite.log" 2>&1 && ! grep -q '^FAIL\|^--- FAIL' "$d/suite.log"; then suite=pass; else suite=fail; fi
  tail -3 "$d/suite.log" >> "$log"
fi
echo "CONFIRM $d: clean=$clean patched=$patched suite=$suite"
