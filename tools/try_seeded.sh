#!/bin/bash
# tools/try_seeded.sh <property id> <patch.diff> [tier]
# Applies a seeded breaking change to /repo, runs the property's check, and ALWAYS restores /repo.
# Prints DETECTED / MISSED / BROKEN(exit 2).
set -u
id="$1"; patch="$2"; tier="${3:-quick}"
cd /repo || exit 2
if [ -n "$(git status --porcelain)" ]; then echo "try_seeded: /repo is not clean" >&2; exit 2; fi
if ! git apply --check "$patch" 2>/dev/null; then echo "try_seeded: patch does not apply: $patch" >&2; exit 2; fi
git apply "$patch"
trap 'cd /repo && git checkout -- . && git clean -fdq' EXIT
out=$(cd /verif && VERIF_DIR_OVERRIDE= ./check "$id" "$tier" -no-evidence 2>&1); rc=$?
echo "$out" | grep -E "^violation|^VIOLATION|^verifsim: $id|KNOWN-FINDING|harness error|nondeterminism" | head -8
case $rc in
  1) echo "RESULT $id $(basename $(dirname $patch)): DETECTED" ;;
  0) echo "RESULT $id $(basename $(dirname $patch)): MISSED" ;;
  *) echo "RESULT $id $(basename $(dirname $patch)): BROKEN (exit $rc)"; echo "$out" | tail -5 ;;
esac
