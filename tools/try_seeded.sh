#!/bin/bash
# tools/try_seeded.sh <property id> <patch.diff> [tier]
# Tries a seeded breaking change WITHOUT touching /repo: makes a scratch worktree of /repo's HEAD under /tmp,
# applies the patch there, runs the property's check against it (VERIF_REPO), removes the worktree.
# Prints RESULT ... DETECTED / MISSED / BROKEN(exit 2). (To reproduce the way the brief describes:
#   git -C /repo apply <patch> && ./check <ID> quick; git -C /repo checkout -- .)
set -u
id="$1"; patch="$(readlink -f "$2")"; tier="${3:-quick}"
name="$(basename "$(dirname "$patch")")"
# fixed path per (property, change): the go build cache is keyed by directory, random names would fill the disk
wt=/tmp/verif-try-$id-$name; git -C /repo worktree remove --force "$wt" >/dev/null 2>&1; rm -rf "$wt"
git -C /repo worktree add --detach -f "$wt" HEAD >/dev/null 2>&1 || { echo "try_seeded: cannot create worktree" >&2; exit 2; }
# the checks run from a private snapshot of /verif (check, harness, known findings), so /verif can be edited meanwhile
vs="$wt-v"; rm -rf "$vs"; mkdir -p "$vs"
rsync -a --exclude bin --exclude '.alt*' --exclude '.selftest*' /verif/check /verif/harness /verif/known_findings.json "$vs/"
cleanup() { git -C /repo worktree remove --force "$wt" >/dev/null 2>&1; rm -rf "$wt" "$vs"; }
trap cleanup EXIT
if ! git -C "$wt" apply "$patch" 2>/dev/null; then echo "RESULT $id $name: PATCH-DOES-NOT-APPLY"; exit 2; fi
out=$(cd "$vs" && VERIF_REPO="$wt" ./check "$id" "$tier" -no-evidence 2>&1); rc=$?
echo "$out" | grep -E "^violation|^  |KNOWN-FINDING|harness error|nondeterminism" | head -6
case $rc in
  1) echo "RESULT $id $name: DETECTED" ;;
  0) echo "RESULT $id $name: MISSED"; echo "$out" | tail -1 ;;
  *) echo "RESULT $id $name: BROKEN (exit $rc)"; echo "$out" | tail -5 ;;
esac
