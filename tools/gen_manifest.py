#!/usr/bin/env python3
"""Regenerates /verif/MANIFEST.json from the table below (kept in one place so it stays valid)."""
import json, subprocess, os

hooks_commits = subprocess.run(["git","-C","/repo","log","--format=%H %s","6be4c07..HEAD"],capture_output=True,text=True).stdout.strip().splitlines()
hook_commits = [l.split()[0] for l in hooks_commits if " verif hook" in l]

ENV = "export GOFLAGS=-mod=mod GOPROXY=off GOSUMDB=off GOTOOLCHAIN=local; "

checks = {
 "C05": dict(cat="exploration", design="DESIGN.md §4 C05",
   text="Seeded deterministic simulation: every internal/atomic Get/Load/Store/CAS of every registering, completing and observing task is a scheduling point chosen from one PRNG; spawned executor goroutines are tasks of the same scheduler. Oracles at quiescence: exactly one completion call returned true, Value/observers saw exactly its result and completion is stable, every registered callback ran exactly once (per its filter) with that result and not before completion, nothing is left runnable/blocked; zero-value Promise/Future never complete, ignore registrations and do not panic. Sampling of interleavings, not proof.",
   note="Trusted: Go's sync/atomic below internal/atomic.Value, sequential execution between two atomic steps, harness executors never drop or duplicate a runnable. Not covered: promise.WithTimeout / future.Await (real timers, not named by the property).",
   technique="deterministic simulation: seeded scheduler over atomic-step yield hooks + spawn seam, quiescence oracles, trace shrinking"),
 "C19": dict(cat="exploration", design="DESIGN.md §4 C19",
   text="Seeded deterministic simulation of 2-4 client tasks on one CopyOnWriteMap (3 keys, unique written values), interleaved at the entry of load()/copyOnWrite(), inside the lock, before the snapshot store, and inside stalled user callbacks (tasks then really block on the library mutex; detected from the Go runtime's wait reason). The recorded invoke/return history (stamps = scheduler step numbers, intervals only ever widened) is checked with porcupine against a sequential map specification that also pins what UpdatedWith's remap observed; any panic inside an operation is a violation; ComputeIfAbsent-only keys are cross-checked directly. Sampling of interleavings and histories, not proof.",
   note="Trusted: sync.Mutex, sync/atomic.Value, porcupine's Illegal verdict (Unknown is counted, never reported). Interleavings inside one Go map copy are not explored (no yield point there).",
   technique="deterministic simulation: seeded scheduler over hook points + stalled-callback faults, linearizability of the recorded history (porcupine) against a sequential model"),
 "C06": dict(cat="exploration", design="DESIGN.md §4 C06",
   text="Seeded deterministic simulation of random future-combinator expression trees (Map/FlatMap/Flatten/Map2/Zip/Zip3/Ap/ApFunc/LiftA*/LiftM*/Flap*/Method*/FlatMethod*/Compose*/With/Sequence*/Traverse*/FlatMapTraverse*/FoldFuture/Transform*/Recover*/Or/OrFuture/Failed/Replace/MapSeqLift, Chain2-9 and Applicative2-9 builders with every Ap* variant, LiftA2-9/LiftM2-9, Apply/Apply2/Func*/Unit* leaves with failing and panicking bodies) over source promises completed in seeded phases (before the build, during, after, never), per-node executors, every atomic step a scheduling point. After every scheduler step every built node that is complete must equal a hand-written three-valued (Pending/Success/Failure) left-to-right reference evaluation over the currently completed sources (never early, right value, stable); at every quiescence complete <=> reference not Pending (always completes, also for Apply bodies that panic); root observers fire exactly once. Sampling, not proof.",
   note="Trusted: the harness's reference interpreter (independent of the try package), executors never drop a runnable, user functions other than Apply bodies do not panic. Await/promise.WithTimeout (real timers) are outside the statement. Method/FlatMethod/Flap are generated up to arity 4 and Compose up to 3 only.",
   technique="deterministic simulation: seeded scheduler + phased source completion + fault plan on Apply bodies/sources, step invariant against a three-valued reference model"),
 "C16": dict(cat="exploration", design="DESIGN.md §4 C16",
   text="Seeded deterministic simulation in four run classes. (memo) 2-5 tasks call Get concurrently and repeatedly on one shared deferred value (lazy.Call/TailCall/TailCall1-3/Memoize/Func1-3, fp.Memoize) whose instrumented thunk counts executions, yields inside (other tasks then really block on the library's sync.Once; detected from the runtime's wait reason) and, as a fault, panics. (eval) random Eval expression trees shared by 1-4 tasks, compared with a strict interpreter. (list) memoised list cells of fp.MakeList/list.Generate*/Recurrence*/Map/Zip/Scan/Collect/iterator.ToList walked by 2-4 tasks. (tailrec) tail-recursive TailCall/TailCall1-3/mutual-recursion programs up to 10^6 (quick) / 2*10^7 (thorough) steps under an 8 MB stack limit; a stack overflow is a fatal error attributed through the crash journal. Oracles: every deferred computation instance executes at most once at all times, results equal strict evaluation and are not returned before the computation finished. Sampling, not proof.",
   note="Trusted: sync.Once. A panicking thunk counts as executed (sync.Once semantics). Single-task eval/tailrec runs are deterministic payload runs and are reported as separate run classes, not as interleavings. FoldRight chains are only value-checked at moderate depth (they are not tail recursive).",
   technique="deterministic simulation: seeded scheduler with stalls inside thunks (real blocking on sync.Once), thunk-panic and stack-limit faults, execution counters + strict reference interpreter"),
 "C20": dict(cat="exploration", design="DESIGN.md §4 C20",
   text="Seeded deterministic simulation. (two-sided) two consumer tasks follow seeded call scripts (HasNext repeated 1-3 times before each Next, early stop, Next on exhausted) on the two outputs of Duplicate/Span/Partition (optionally under further combinators) over an instrumented finite or unbounded source; they are interleaved call by call, and mid-call when the source stalls while the library's mutex is held (the other side then really blocks on it). Oracles: each side delivers exactly its slice-reference sequence, every HasNext agrees with the reference and changes nothing, Next on exhausted panics, the source is never used concurrently nor over-pulled, drained sides pulled each element once. (one-sided) same scripts over seeded pipelines of iterator constructors and 22 combinators; (unordered) map/set iterators as multisets under three lawful hashers; (zero) every method of the zero-value Iterator. Sampling, not proof.",
   note="Trusted: sync.Mutex; the slice reference implementations in the harness. How far ahead a combinator may pull is C12's question and deliberately not checked; consumers always call HasNext before Next.",
   technique="deterministic simulation: seeded scheduler over consumer calls + stalled-source fault under the library lock, slice reference model, pull counters"),
 "C02": dict(cat="fault_enumeration", design="DESIGN.md §4 C02",
   text="Fault plans over instrumented callbacks. A generated table (about 900 entries: try/option/either/statet x Map2-9/LiftA2-9/FlatMap2-9/LiftM2-9/Flap1-9/Method1-9/FlatMethod1-9/Compose2-5/Zip/Zip3/Ap/ApFunc/Flatten/Map/FlatMap/Lift/LiftM/Replace/With/FlapMap/FlatFlapMap/Sequence*/Traverse* (8 variants)/FlatMapTraverse*/FoldM over 0-5 elements, and the hand-written combinators outside the generated families - statet.ApTry/ApOption/FlatMapConst/WithState/MapWithState/MapT/MapWithStateT/ModifyT/GetST/Concat, the Map/FlatMap/Foreach/All/Filter methods of fp.Try and fp.Option, try.ComposeOption/ComposePure/Traverse_/TraverseOption and try's OptionT/SeqT helpers - and Chain1-9/Applicative1-9 builders of try and option with the argument variant of every position drawn from the seed) is executed under the no-fault plan, EVERY single-fault plan and seeded multi-fault plans: result must be the failure of the left-most faulted position with that position's own sentinel, callbacks before it ran exactly once in order and none after it. Recover*/Or*/OrElse* of Try/Option/Either/StateT are swept over receiver x handler behaviour (handlers run iff the receiver failed, successes unchanged, handler gets the receiver's own error). try.Of/Call/CallUnit and future.Apply/Apply2/Func0-3/Unit1 (the latter under the seeded task scheduler and every executor kind) are run with normal, error-returning and panicking bodies over twelve panic values (strings, errors, ints, structs, typed nil pointers and genuine runtime.Error panics: nil map write, nil dereference, index out of range, divide by zero, failed type assertion): a panic must not escape, Failure must expose the panic value, a normal return is never turned into a failure, the future always completes. A fatal stack overflow is attributed to the case through the crash journal.",
   note="Single-fault plans are complete for every case a run visits; which cases are visited and all multi-fault plans are sampled from the seed (a quick run visits every table entry many times). Only the future.Apply family has a schedule; the rest are single-task fault-plan runs (stated in the evidence run classes). panic(nil) is excluded.",
   technique="fault injection through instrumented callbacks: complete single-fault enumeration + seeded multi-fault plans per combinator instance; seeded scheduler for future.Apply*"),
 "C03": dict(cat="exploration", design="DESIGN.md §4 C03",
   text="Seeded multi-version store: a pool of live fp.Map[int,int]/fp.Set[int] versions from every constructor (immutable.Map/Set, MapBuilder/SetBuilder, seq/iterator/list.ToMap/ToSet, zero values), each paired with a Go-map reference, under one adversarial but lawful hasher per run (identity, hash.Number, k mod 4, constant, k<<27, collide-on-subset, two-level); 1-3 simulated clients apply Updated/Removed/UpdatedWith/Concat/Incl/Excl/Diff/Intersect/SubsetOf in grow/shrink phases over up to 72 keys, every result joining the pool. After every event the new version's trie passes the structural walker (popcount=len(nodes), hash-array count, collision >=2 same-hash non-Eqv entries, leaves under their own hash path, size=reachable entries) and Get/Contains over the whole key universe, Size, IsEmpty, Iterator/Keys/Values/Foreach equal the reference; source versions and a stride of live versions are re-checked, all of them at the end. Reach probes: every node kind, array->branch, bitmap<->hash-array, collision created/reduced, depth>=3. Sampling of histories, not proof.",
   note="Trusted: the Go-map reference in the harness; hashers are lawful by construction. There is no intra-operation nondeterminism in persistent structures, so client interleaving is at operation granularity (stated in the evidence). Keys are ints only.",
   technique="deterministic simulation (history leg): seeded multi-client operation histories over a multi-version store, adversarial-hasher fault, reference model + structural invariants after every event"),
 "C04": dict(cat="exploration", design="DESIGN.md §4 C04",
   text="Seeded branching histories over a pool of live values: Seq/[]int inputs carved out of harness-owned arenas (spare capacity, overlapping windows), strict/lazy/slice-backed Lists, immutable Map/Set versions under adversarial hashers, Go maps handed to the library, Option/Try/tuples, and builders kept after Build. 1-3 simulated clients apply 60 operation kinds of the non-mutable API to randomly chosen live values (old versions included); results join the pool. When a value enters the pool two snapshots are taken - contents through the public API and raw memory (whole arenas, backing arrays up to cap, Go maps, structural fingerprint of each retained trie) - and both are compared after every later event, the first difference being attributed to the event that caused it. Sampling of histories and layouts, not proof.",
   note="Views (Take/Drop/Tail/Init) may share storage, only writes are violations. A builder that refuses (panics) when used after Build is accepted. No intra-operation interleaving exists; client interleaving is at operation granularity. Element type is int; the mutable package is excluded as the property says.",
   technique="deterministic simulation (history leg): seeded multi-client branching histories, aliasing-layout and builder-reuse faults, API-content and raw-memory snapshots re-compared after every event"),
 "C15": dict(cat="fault_enumeration", design="DESIGN.md §4 C15",
   text="A seeded value is marshalled into a simulated byte store: fp.Option[T] (T = int incl. extremes, string with escapes and control bytes, float64, bool, nested Option, []int, map[string]int, struct with Option fields, *int; top-level and inside slices/maps/structs), fp.Unit, and the @fp.Json value types gombok generated in the repository (testpk1.World with a time.Time field, docexample.Address, testpk2.Greeting nesting World; top-level and inside slices/maps; reached through the tag-guarded alias package test/verifjson). Fault-free class: json.Unmarshal and json.Decoder (over a short-reading io.Reader) give back a deep-equal value, None <=> null both ways, bytes equal encoding/json of the plain value / of the public Mutable twin. Fault class: torn write at EVERY offset of the record (complete), plus seeded bit flips, byte duplication/deletion, splice, zero fill, whitespace, concatenated records, misdirected read (an intact record of another schema), a reader error mid-stream, and the raw bytes handed straight to the target's own UnmarshalJSON; decoding into a pre-populated target must never panic, and when it returns an error an Option / Unit / @fp.Json target must be unchanged.",
   note="PARTIAL with respect to 'all @fp.Json struct shapes produced by the C07 grammar': only the three shapes committed in the repository are exercised (no Option-typed or nilable field among them); generating further shapes is program generation (C07, not a simulation target). Values whose own encoding is null are excluded as the property says. 'Unchanged on error' is required of Option/Unit/@fp.Json targets, not of plain containers encoding/json itself fills incrementally; the fault-free class decodes @fp.Json structs into a zero target because their UnmarshalJSON merges into the Mutable twin like encoding/json does for any struct.",
   technique="fault injection on the byte store / io.Reader seam: exhaustive torn-write offsets + seeded corruption and misdirected reads per record, round-trip, twin-encoding and target-unchanged oracles"),
 "C13": dict(cat="exploration", design="DESIGN.md §4 C13",
   text="The nondeterminism the property names - Go's randomised map iteration inside gombok, template_gen and monad_gen - has no seam in the Go runtime, so the check manufactures one at run time: a scratch copy of the working tree is rewritten (go/types-based: every `range` over a map-typed expression and every maps.All/Keys/Values call in the packages the generators link, 37+2 sites today) to go through a drop-in that iterates in a permutation that is a pure function of (seed, call site, per-site counter); the three generators are built from that copy and run, exactly as `go generate` would run them (GOPACKAGE/GOFILE/GOLINE, cwd), for every go:generate directive of the repository on pristine scratch copies of the working tree, under 2 (quick) / 16 (thorough) seeds and GOMAXPROCS in {1,4,16}. Oracle per seed: the result is byte-identical to the working tree (fixpoint, hence identical across seeds; thorough regenerates a second time on top of the first output), every file with a 'Code generated ... DO NOT EDIT' header is written by some directive and generators write only such files. Sampling of iteration orders, not proof.",
   note="Stretch: the seam is manufactured by source rewriting of a scratch copy, never of /repo. Not owned: go/packages' `go list` subprocesses, and the base order of pointer keys without a position (process-dependent before the seeded shuffle) - a failure is reported with its seed and replayed with ./check replay. The scratch packages of C07/C08 mentioned in the quantifier do not exist (those properties are not applicable here).",
   technique="deterministic simulation of map-iteration order: source-rewritten generators (seeded permutation per call site) run over pristine copies, byte-for-byte fixpoint oracle"),
}

na = {
 "C01": "pure monad/functor laws and coherence of derived combinators: a function of (m, f, g) with no schedule, clock, fault or history for a simulator to own; equality of two expressions for all inputs would be input generation dressed as simulation.",
 "C07": "gombok @fp.Value output is a compile-time program transformation judged over a grammar of input programs; nothing runs concurrently, no I/O fault or interleaving exists.",
 "C08": "gombok @fp.Derive instances: program generation plus algebraic laws of generated pure functions; no schedule, fault or history.",
 "C09": "Eq/Hashable laws are laws over pairs/triples of values of pure functions; no nondeterminism to simulate.",
 "C10": "Ord laws and Sort being an ordered permutation are pure functions of the input (that Sort must not write to its input is C04 and is checked there).",
 "C11": "Monoid/Semigroup laws and Reduce/FoldMap equalities are pure.",
 "C12": "Iterator/List agreement with eager Seq and demand-bounded pulling is a pure function of (input, pipeline, demand pattern) for one consumer; the multi-consumer/protocol aspects are C20 and run-once under concurrency is C16.",
 "C14": "arity-indexed families: the 'configurations' are arities of generated source text, a finite table of pure functions; nothing to schedule or fail.",
 "C17": "StateT threads state by pure function composition; a failing step is a returned value, not an injected fault; no interleaving exists.",
 "C18": "Clone sharing is a pure function of the input judged by reachability analysis of the result; no history or second party.",
}
# claimed in DESIGN.md but not built yet -> listed as not applicable *for now* with an honest reason
pending = {
}

m = {
 "version": 1,
 "setup_cmd": "cd /verif && ./check build",
 "hooks": {
   "guard": "verif (Go build tag)",
   "enable": "go build -tags verif (the harness module /verif/harness replaces github.com/csgura/fp => /repo and is always built with -tags verif)",
   "baseline_off_cmd": ENV + "cd /repo && go test -vet=off -count=1 -timeout 25m ./...",
   "source_commits": hook_commits,
   "add_only": True,
 },
 "engines": [
   {"name":"verifsim","path":"/verif/harness","serves_properties":sorted(checks.keys()),
    "kind_free_text":"deterministic simulator: seeded task scheduler over guarded yield/spawn hooks, fault plans through callback/executor/hasher/byte seams, reference-model oracles, decision-trace replay and shrinking"}
 ],
 "checks": [],
 "not_applicable": [],
 "notes": "All checks: ./check <ID> quick|thorough (honours VERIF_SEED, VERIF_TIER); replay with ./check replay <file>. Known findings: /verif/known_findings.json. See DESIGN.md.",
}
for pid in sorted(checks):
    c = checks[pid]
    m["checks"].append({
      "property_id": pid,
      "quick_cmd": f"./check {pid} quick",
      "thorough_cmd": f"./check {pid} thorough",
      "evidence_file": f"/verif/evidence/{pid}.json",
      "replay_cmd_template": "./check replay {path}",
      "engine": "verifsim",
      "level_claimed": {"category": c["cat"], "text": c["text"], "design_ref": c["design"]},
      "level_note": c["note"],
      "technique": c["technique"],
    })
allp = [json.loads(l)["id"] for l in open("/verif/properties.jsonl")]
for pid in allp:
    if pid in checks: continue
    if pid in na: m["not_applicable"].append({"property_id":pid,"reason":na[pid]})
    elif pid in pending: m["not_applicable"].append({"property_id":pid,"reason":pending[pid]})
    else: m["not_applicable"].append({"property_id":pid,"reason":"simulation check designed (DESIGN.md §4) but not built yet in this tree; not claimed until it is."})
json.dump(m, open("/verif/MANIFEST.json","w"), indent=1)
print("checks:", [c["property_id"] for c in m["checks"]], "n/a:", [c["property_id"] for c in m["not_applicable"]])
