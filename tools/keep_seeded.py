#!/usr/bin/env python3
"""tools/keep_seeded.py <stage-dir> <seeded-id> <property> <confirm-line> <try-result-file>
Stores a confirmed seeded change as /verif/seeded/<seeded-id>/ (patch.diff, demo, NOTES.md, meta.json)."""
import json, os, re, shutil, sys

stage, sid, prop, confirm, tryfile = sys.argv[1:6]
dst = f"/verif/seeded/{sid}"
os.makedirs(dst, exist_ok=True)
for f in ("patch.diff", "demo_test.go", "demo.sh", "NOTES.md"):
    if os.path.exists(os.path.join(stage, f)):
        shutil.copy(os.path.join(stage, f), os.path.join(dst, f))
notes = open(os.path.join(stage, "NOTES.md")).read() if os.path.exists(os.path.join(stage, "NOTES.md")) else ""
title = notes.strip().splitlines()[0].lstrip("# ").strip() if notes.strip() else sid
def section(pat):
    m = re.search(r"^##[^\n]*(" + pat + r")[^\n]*\n(.*?)(?=^## |\Z)", notes, re.S | re.M | re.I)
    return " ".join(m.group(2).split())[:1500] if m else ""
needs = section("needed|manifest|trigger")
clause = section("clause|property")
files = re.findall(r"^\+\+\+ b/(\S+)", open(os.path.join(stage, "patch.diff")).read(), re.M)
m = re.search(r"clean=(\w+) patched=(\w+) suite=(\w+)", confirm)
name = os.path.basename(stage.rstrip("/"))
detected, vline = "NOT-RUN", ""
if os.path.exists(tryfile):
    lines = open(tryfile).read().splitlines()
    for i, l in enumerate(lines):
        mm = re.match(rf"RESULT {prop} {re.escape(name)}: (\S+)", l)
        if mm:
            detected = mm.group(1)
            # the violation lines printed just before the RESULT line
            j = i - 1
            buf = []
            while j >= 0 and not lines[j].startswith("RESULT"):
                buf.append(lines[j]); j -= 1
            vline = " | ".join(reversed(buf))[:1200]
is_control = bool(m and m.group(2) == "pass")
meta = {
    "id": sid,
    "property": prop,
    "kind": "control: behaviour-preserving change, the checks must stay silent" if is_control else "breaks the property",
    "title": title,
    "files_changed": files,
    "breaks": clause,
    "needs_to_manifest": needs,
    "origin": "independent sub-agent given only the property text and a scratch worktree of /repo (nothing from /verif)",
    "confirmed_by_me": {
        "how": "tools/confirm_seeded.sh in a fresh scratch worktree of /repo HEAD: demo on the clean tree, demo with the patch, repository suite (go build ./... && go test -vet=off -count=1 ./...) with the patch",
        "demo_on_clean_tree": m.group(1) if m else "?",
        "demo_with_patch": m.group(2) if m else "?",
        "suite_with_patch": m.group(3) if m else "?",
    },
    "check_result": {
        "how": f"tools/try_seeded.sh {prop} seeded/{sid}/patch.diff quick  (same as: git -C /repo apply <patch>; ./check {prop} quick; git -C /repo checkout -- .)",
        "outcome": ("NO-ALARM" if detected == "MISSED" else "FALSE-ALARM:" + detected) if is_control else detected,
        "reported": vline,
    },
}
json.dump(meta, open(os.path.join(dst, "meta.json"), "w"), indent=1, ensure_ascii=False)
print("kept", dst, detected)
