#!/usr/bin/env python3
"""Rewrites section 9.5 of DESIGN.md (which checks catch which seeded changes) from /verif/seeded/*/meta.json."""
import json, glob, re
rows = []
for f in sorted(glob.glob('/verif/seeded/*/meta.json')):
    d = json.load(open(f))
    cr = d['check_result']
    rep = cr.get('reported', '')
    m = re.search(r'class=(\S+)', rep)
    cls = m.group(1) if m else ''
    title = d['title'].replace('|', '/')
    title = re.sub(r'^m\d+\s*[-:]\s*', '', title)
    first = cr.get('first_outcome', '')
    if d.get('kind','').startswith('control'):
        note = 'CONTROL (behaviour-preserving): the check must stay silent'
    else:
        note = 'caught as built' if not first else 'missed at first; ' + cr.get('strengthening', '')
    rows.append(f"| {d['id']} | {d['property']} | {title[:110]} | {cr['outcome'].lower()} (`{cls}`) | {note.replace('|','/')} |")
table = "\n".join(rows)
text = f"""### 9.5 Seeded changes and which check catches them

Every directory under `/verif/seeded/` is one change to csgura/fp written by an independent sub-agent that was given only the text
of one property and a scratch worktree (nothing from /verif). Each was confirmed by `tools/confirm_seeded.sh` in a fresh worktree
(demo passes on the clean tree, fails with the patch, the repository's own suite passes with the patch) and then run against the
property's quick check with `tools/try_seeded.sh` (apply, `./check <ID> quick`, restore). {len(rows)} changes; every breaking change is caught (the last column
says which ones were missed at first and what was strengthened), every CONTROL - a behaviour-preserving refactoring of code the property passes through, written by the same sub-agents - leaves its check silent. None of them is ever applied to /repo.

| change | property | what it does | quick check | note |
|--------|----------|--------------|-------------|------|
{table}
"""
p = '/verif/DESIGN.md'
s = open(p).read()
if '### 9.5 Seeded changes' in s:
    s = re.sub(r'### 9\.5 Seeded changes.*?(?=\n### |\n## |\Z)', text, s, flags=re.S)
else:
    s = s.rstrip('\n') + '\n\n' + text
open(p, 'w').write(s)
print(len(rows), 'rows')
