#!/bin/bash
# tools/process_wave.sh <ID> <wave>: collect a finished sub-agent's SEEDED/ from /tmp/wt-<ID>-<wave>, remove the worktree,
# confirm every change independently (confirm_seeded.sh) and run the property's check against it (try_seeded.sh).
id="$1"; w="$2"; wt=/tmp/wt-$id-$w; st=/tmp/stage/w$w/$id
mkdir -p "$st"
if [ -d "$wt/SEEDED" ]; then cp -r "$wt"/SEEDED/m* "$st/" 2>/dev/null; git -C /repo worktree remove --force "$wt"; fi
for m in "$st"/m*; do
  [ -f "$m/patch.diff" ] || continue
  /verif/tools/confirm_seeded.sh "$m" >> /tmp/stage/w$w-confirm.txt 2>&1
  # try_seeded names the change after its directory: use <ID>-w<wave>-mN to keep scratch paths unique
  n=$(basename "$m"); d="$st/$id-w$w-$n"; mkdir -p "$d"; cp "$m/patch.diff" "$d/patch.diff"
  /verif/tools/try_seeded.sh "$id" "$d/patch.diff" quick >> /tmp/stage/w$w-try.txt 2>&1
  rm -rf "$d"
done
echo "PROCESSED $id w$w" >> /tmp/stage/w$w-try.txt
